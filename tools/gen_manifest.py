#!/usr/bin/env python3
"""Regenerates /verif/MANIFEST.json from the table below (run by hand after adding a property)."""
import json, os
ROOT = os.path.dirname(os.path.dirname(os.path.abspath(__file__)))

CLAIMED = {
 'C01': dict(
   text=("Three solver layers over the live grammar: (B) every token regex of formula_grammar() is converted to a z3 regular "
         "expression and proven language-equal to the token rule of the documented BNF over unbounded strings; (A) derivation "
         "trees of the documented grammar are rendered to strings whose count literals are symbolic reals, the real pyparsing "
         "grammar and all parse actions run, and atoms/charge/density are proven equal to the tree's denotation for all count "
         "values; (C) the token->value closures are checked by CrossHair (symbolic str, len<=3) and by solver enumeration of "
         "the bounded token language. Malformed strings are concrete negative twins of every skeleton."),
   note="skeleton sizes bounded (<=3 groups, depth<=3); pyparsing itself is executed, not modelled; lexical behaviour on arbitrary strings outside; float()/int() of count literals replaced by symbols",
   technique="z3 sequence/regex theory for token languages; symbolic execution of the real parser actions on z3 Real proxies + SMT validity; CrossHair on token closures",
   ref='4/C01'),
 'C02': dict(
   text=("The real Formula constructors and operators (+, n*, +=) run on symbolic counts, multipliers and atom masses (private "
         "table); atoms, mass, charge, mass fractions are proven equal to the count-weighted sums for all real values on every "
         "enumerated shape/operator expression; operands are checked unchanged by object identity on every path."),
   note="shapes depth<=3, width<=3, operator expressions of <=3 applications; floats as exact reals",
   technique="symbolic execution of the real Python functions on z3 Real proxies (path forking) + SMT (QF_NRA) validity queries",
   ref='4/C02'),
 'C03': dict(
   text=("Bounded symbolic model checking of the real neutron_scattering/_calculate_scattering/Neutron.* code: "
         "the repository's function objects are executed on z3-backed reals (all counts, density, wavelength/energy and, "
         "on a private table, every atom's mass, complex b_c and sigma_s symbolic); every path's outputs are proven "
         "equal to the documented equations for all real values. Shapes (which atoms, how many) are enumerated, values are not."),
   note=("floats modelled as exact reals; sqrt/maximum/interp stubs (listed in evidence); Im b_c <= 0; sigma_i compared "
         "for sigma_s >= sigma_c; z3 5.1 as the deciding solver; rounding is outside the claim"),
   technique="symbolic execution of the real Python functions on z3 Real proxies (path forking) + SMT (QF_NRA) validity queries; counterexamples replayed on floats",
   ref='4/C03'),

 'C04': dict(
   text=("Relational bounded symbolic model checking: two or more symbolic runs of the real neutron code are compared in one "
         "solver query (density scaling, count scaling, regrouping/reordering, energy= vs wavelength=, vector vs scalar "
         "through real numpy broadcasting), plus the conversion algebra and non-negativity; valid for all real values of "
         "counts, masses, scattering lengths, density, wavelength on the enumerated shapes."),
   note="floats as exact reals; sqrt stub; abs/maximum by forking; vector length <= 2 (3 thorough); anchors 1.798 A/2200 m/s/25.3 meV are ground facts; a fresh-interpreter ground case covers a handful of first-lookup routes (element, isotope, ion, compound first) -- concrete, not a solver claim",
   technique="symbolic execution of the real Python functions on z3 Real proxies; relational SMT (QF_NRA) validity queries; replay of counterexamples",
   ref='4/C04'),
 'C17': dict(
   text=("The real neutron_composite_sld closure (with numpy broadcasting over object arrays of z3-backed numbers) is executed "
         "symbolically and each output entry is proven equal to neutron_sld of the weighted formula sum for all weights, "
         "counts, density, wavelength and per-atom data; zero-weight / zero-density cases proven to give zeros."),
   note="floats as exact reals; 1-3 materials (4 thorough); wavelength scalar/len-1/len-2 (3 thorough); energy-dependent branch exercised with a 3-node table of symbolic values (real Dy-164 table in thorough)",
   technique="symbolic execution of the real Python closure on z3 Real proxies through numpy; SMT (QF_NRA) validity queries; replay of counterexamples",
   ref='4/C17'),

 'C11': dict(
   text=("mix_by_weight / mix_by_volume and the mixture productions of the real grammar run on symbolic quantities, component "
         "densities, atom masses, cell scalings and (strings) symbolic numeric literals; the mass resp. volume ratios, the atom "
         "counts, the density (= total mass / total volume, None, or ValueError), total_mass and thickness are proven for all "
         "real values on every path (forks of q>0, min(), n!=1)."),
   note="1-3 components (4 thorough); floats as exact reals; component masses recovered from an atom unique to each component; unit factors are the documented powers of ten",
   technique="symbolic execution of the real Python functions and pyparsing actions on z3 Real proxies + SMT (QF_NRA) validity queries",
   ref='4/C11'),
 'C12': dict(
   text=("natural_mass_ratio / natural_density (getter, setter, keyword, '@' tags), replace() with symbolic portion, volume() "
         "with symbolic radii and packing factor, and cell_volume over a cos stub are executed symbolically and proven equal "
         "to the documented expressions for all real values."),
   note="floats as exact reals; cos(radians(a)) is an uninterpreted value in [-1,1] functional in a; sqrt stub; formulas of 1-4 atoms",
   technique="symbolic execution of the real Python functions on z3 Real proxies + SMT (QF_NRA) validity queries",
   ref='4/C12'),
 'C13': dict(
   text=("(B) the printed-count language (model selected by sampling the live printer, then) proven included in the live count "
         "regex language over unbounded strings; (C) CrossHair on tag printing composed with the live token actions; (A) concolic "
         "round trip: str() of formulas with symbolic counts is produced by the real printer (forks on count==1), parsed by the "
         "real parser with literals mapped back to the same symbols, and the structures are proven equal term-wise on every path."),
   note="count rounding to six digits checked numerically only; depth<=3; CrossHair isotope printing may be 'Not confirmed' (reported inconclusive)",
   technique="z3 regex inclusion; CrossHair; symbolic (concolic) execution of the real printer and parser on z3 Real proxies + SMT validity",
   ref='4/C13'),
 'C19': dict(
   text=("(C) CrossHair searches pairs of atoms built from symbolic symbol/isotope/charge for an insertion-order dependence or a "
         "departure from the documented order; (A) all orderings and several groupings of up to 4 atoms with symbolic counts: "
         "Hill form preserves atoms, is idempotent and canonical (structures proven equal term-wise), documented order, and "
         "parsed Hill-ordered strings equal their own Hill form."),
   note="ordering facts are concrete per atom set; counts symbolic; CrossHair verdict on the unchanged tree is 'Not confirmed' (inconclusive) - it is a counterexample finder here",
   technique="CrossHair on the real sort through the public API; symbolic execution on z3 Real proxies + SMT validity for counts",
   ref='4/C19'),

 'C14': dict(
   text=("The real activation.activity runs on a generic reaction row (every numeric field, flux, ratios, mass, exposure, rest "
         "times symbolic) for each reaction class; its result is proven equal to the documented Bateman closed forms over an "
         "axiomatised exp (the oracle reuses the code's exp applications with provably equal arguments), non-negative (single "
         "capture and 'b'), linear in mass, with the fast/epithermal switches; the small-argument branch is proven accurate on "
         "its guard region against a Taylor enclosure; Sample.calculate_activation plumbing on real rows (oracle keyed by row "
         "identity). The floats-as-reals assumption is discharged separately by a concrete sweep: all 513 real rows x a grid of "
         "fluence, Cd ratio and exposure against the chain solution in 80-digit decimal arithmetic (relative 1e-5, non-negative)."),
   note="exp is an uninterpreted function constrained by sign/monotone/functional/tangent (and secant for 'b') axioms: identities hold for every such function, hence for exp; monotonicity in exposure and the symbolic '2n' non-negativity are outside; one known finding (cancellation in the '2n' branch at small rate*exposure)",
   technique="symbolic execution of the real Python function on z3 Real proxies with an axiomatised exp + SMT (QF_NRA) validity queries; counterexamples replayed against an 80-digit decimal evaluation",
   ref='4/C14'),
 'C15': dict(
   text=("The real Sample.decay_time runs on symbolic product activities, half-lives, rest-time lists and target with find_root "
         "replaced by 'returns an arbitrary (t, f(t))': early exit iff activity at removal <= target, acceptance within 0.1%, "
         "RuntimeError otherwise, f == total activity - target for every rest list (product instances of exp), df == f'; the "
         "stub's contract is proven on the real find_root with uninterpreted f, df."),
   note="t >= 0 and Newton convergence are outside (concrete replay only); exp axiomatised; floats as reals",
   technique="symbolic execution of the real Python method on z3 Real proxies with stubbed root finder + SMT validity queries; uninterpreted-function contract check of find_root",
   ref='4/C15'),

 'C16': dict(
   text=("The real D2O_sld / D2O_match / _D2O_slds / Formula.replace run on a private table whose H, H[1], D, O and solute atoms "
         "carry symbolic masses and scattering lengths; real and imaginary SLD at volume fraction 1 are proven equal to the "
         "documented substitution (fraction d of labile H -> D, rest -> H, cell volume fixed), at 0 to the H2O/D2O mixture at "
         "0.9982 natural density, linear in between; at the reported match point the SLD is proven independent of the volume "
         "fraction; fasta.Molecule agrees with nsf on the public table."),
   note="floats as exact reals; incoherent SLD excluded (as the property does); np.maximum kept as an if-then-else term (incoherent part unused)",
   technique="symbolic execution of the real Python functions on z3 Real proxies + SMT (QF_NRA) validity queries with fraction-free normalisation",
   ref='4/C16'),

 'C06': dict(
   text=("Partial: the abundance pass of the real mass.init is executed on fresh private tables with synthetic composition texts "
         "whose abundance values are symbolic (normalisation to 100%, zero for unlisted isotopes, last element of the text "
         "included); density / number density / interatomic distance relations are proven for symbolic density and masses, and "
         "unknown density gives None; parse_uncertainty notation is searched by CrossHair. The row-by-row association of the "
         "embedded tables has no symbolic variable: it is covered by an exhaustive concrete sweep (every element and isotope, "
         "public and a fresh private table: mass, mass uncertainty, abundance and its uncertainty, sums to 100, weighted "
         "isotope mass within the stated uncertainties, density of every isotope) against an independent reading, reported "
         "as ground facts, not as a solver claim."),
   note="partial claim: the solver decides the loader logic and the relations; the table sweep is concrete; CrossHair on parse_uncertainty is a counterexample finder ('Not confirmed' = inconclusive)",
   technique="symbolic execution of the real loader and property functions on z3 Real proxies + SMT validity; CrossHair on the notation parser",
   ref='4/C06'),
 'C07': dict(
   text=("Partial: the real nsf.init runs on a fresh private table whose selected rows carry symbolic field values (placeholders "
         "through fix_number): every field is proven to hold its own column, flags/spin/abundance/half-life handling, "
         "b_c_complex = b_c - i*absorption/(2000*1.798), shared record of single-isotope elements, no-SLD atoms; each "
         "energy-dependent table is covered for all wavelengths by the interp fork tree (nodes, chords, clamped ends) and at "
         "every node concretely. The 364-row association has no symbolic variable: an exhaustive concrete sweep (public table, "
         "and two further initialisations on fresh private tables; every field, has_sld, no-row atoms incl. isotopes added "
         "after loading, energy-table axes and nodes) against an independent reading is reported as ground facts."),
   note="partial claim: the solver decides the loader logic; the row sweep is concrete; np.interp is an exact semantic model over the concrete node arrays; a fresh-interpreter ground case covers a handful of first-lookup routes (element, isotope, ion, compound first) -- concrete, not a solver claim",
   technique="symbolic execution of the real loader on z3 Real proxies + SMT validity; fork-tree model of numpy.interp; CrossHair on fix_number",
   ref='4/C07'),

 'C05': dict(
   text=("(a) Xray.scattering_factors is executed with a symbolic energy on real elements (fork-tree model of numpy.interp over the "
         "loaded table) and proven equal to the linear interpolation of an independent reading of the .nff file, NaN outside; "
         "(b) xray_sld, Xray.sld and index_of_refraction are proven equal to the documented formulas for symbolic counts, "
         "density, masses and uninterpreted per-element scattering-factor functions of the energy (energy/wavelength agreement, "
         "vector vs scalar, linearity in density, isotope independence); (c) mirror_reflectivity is proven to lie in [0,1] for "
         "an arbitrary complex refractive index over complex-sqrt / sin-cos / exp contracts; (d) f0 symbol resolution by CrossHair."),
   note="quick: 14-node windows around absorption edges of 4 elements, thorough: 60-node windows of 14 elements and two whole tables; NaN-endpoint segments and doubled edge energies excluded; every node of every shipped table is additionally checked concretely (ground); one known finding (si.nff row order); a fresh-interpreter ground case covers a handful of first-lookup routes (element, isotope, ion, compound first) -- concrete, not a solver claim",
   technique="symbolic execution of the real Python functions on z3 Real/complex proxies + SMT (QF_NRA/QF_UFNRA) validity queries; CrossHair for the symbol logic",
   ref='4/C05'),
 'C18': dict(
   text=("The real Sequence / Molecule / _code_average run with the code tables temporarily holding residues of symbolic "
         "composition, volume and charge: formula atoms, cell volume, charge, masses and density are proven to be the sums over "
         "the residue multiset for every listed code string (spaces, '*' terminator, all permutations), ambiguity codes to be "
         "equal-weight averages, the aa:/dna:/rna: prefixes to agree; read_fasta and the file-type guess are searched by CrossHair."),
   note="code strings of length <= 4 over <= 3 codes; CrossHair on read_fasta is a counterexample finder ('Not confirmed' on the unchanged tree)",
   technique="symbolic execution of the real Python classes on z3 Real proxies + SMT validity; CrossHair on the line parser",
   ref='4/C18'),
 'C20': dict(
   text=("Partial: the magnetic form-factor methods and the Cromer-Mann evaluator run on symbolic coefficient sets and symbolic "
         "Q (scalar and vector) and are proven equal to A exp(-a s^2)+B exp(-b s^2)+C exp(-c s^2)+D (times s^2 for n>0) with "
         "s = Q/4pi, with the Q=0 limits for all coefficients and NaN beyond the fitted range. Which table row is attached to "
         "which element/ion has no symbolic variable (finite association): it is covered by an exhaustive concrete sweep on the "
         "public and a fresh private table against independent readings of the embedded texts (CFML magnetic coefficients per "
         "charge state, DABAX f0 entries incl. the per-ion API, covalent radii and uncertainties, emission lines, crystal "
         "structures by position), reported as ground facts, not as a solver claim."),
   note="partial claim: the solver decides the evaluators; associations are a concrete sweep; exp axiomatised (oracle reuses the code's applications); a fresh-interpreter ground case covers a handful of first-lookup routes (element, isotope, ion, compound first) -- concrete, not a solver claim",
   technique="symbolic execution of the real Python functions through numpy on z3 Real proxies + SMT validity",
   ref='4/C20'),
}

NOT_APPLICABLE = [
 dict(property_id='C08', reason="object identity across lookup routes, pickle and deepcopy over a finite set of concrete heap objects: no input for a solver to range over (DESIGN.md section 5)"),
 dict(property_id='C09', reason="quantifies over first-touch histories of interpreter-level class attribute state (delattr/setattr, descriptor protocol); needs history enumeration or a hand model of Python attribute lookup, not symbolic data (DESIGN.md section 5)"),
 dict(property_id='C10', reason="same mechanism as C09 plus reference sharing between tables (id() of per-atom objects); no symbolic data (DESIGN.md section 5)"),
]

def main():
    props = [json.loads(l)['id'] for l in open(os.path.join(ROOT, 'properties.jsonl'))]
    checks = []
    for pid in props:
        if pid not in CLAIMED:
            continue
        c = CLAIMED[pid]
        checks.append(dict(
            property_id=pid,
            quick_cmd='./vcheck %s --tier quick' % pid,
            thorough_cmd='./vcheck %s --tier thorough' % pid,
            evidence_file='evidence/%s.json' % pid,
            replay_cmd_template='./vcheck replay {path}',
            engine='pverif',
            level_claimed=dict(category='model_checking', text=c['text'], design_ref=c['ref']),
            level_note=c['note'],
            technique=c['technique']))
    na = list(NOT_APPLICABLE)
    for pid in props:
        if pid not in CLAIMED and pid not in [n['property_id'] for n in na]:
            na.append(dict(property_id=pid, reason='check not built yet (work in progress; see DESIGN.md section 4 for the plan)'))
    m = dict(version=1, setup_cmd='./vcheck --setup',
             hooks=dict(guard='PERIODICTABLE_VERIF', enable='no source hooks: all stubs are runtime monkeypatches applied inside the check process',
                        baseline_off_cmd='cd /repo && /venv/bin/python -m pytest -ra -q -p no:cacheprovider --timeout=900 --continue-on-collection-errors',
                        source_commits=[], add_only=True),
             engines=[dict(name='pverif', path='pverif/', serves_properties=[c['property_id'] for c in checks],
                           kind_free_text='engine A: symbolic execution of the real function objects on z3-backed numeric proxies; engine B: live pyparsing regexes -> z3 regular expressions; engine C: CrossHair on the real small int/str functions')],
             checks=checks, not_applicable=na,
             notes='see DESIGN.md; known_findings.json lists genuine defects recorded or fixed')
    json.dump(m, open(os.path.join(ROOT, 'MANIFEST.json'), 'w'), indent=1)
    print('wrote MANIFEST.json with', len(checks), 'checks;', len(na), 'not applicable')

if __name__ == '__main__':
    main()
