#!/usr/bin/env python3
"""Confirm (tools/confirm_seed.sh) and evaluate every seeded change found under /tmp/seeded-out that is not
yet recorded in /verif/seeded/<ID>-<mN>/meta.json; writes meta.json with what was run and what caught it."""
import glob, json, os, re, subprocess, sys, time
ROOT = os.path.dirname(os.path.dirname(os.path.abspath(__file__)))
props = {json.loads(l)['id']: json.loads(l) for l in open(os.path.join(ROOT, 'properties.jsonl'))}
only = sys.argv[1:]
for patch in sorted(glob.glob('/tmp/seeded-out/*/m*/patch.diff')):
    pid, m = patch.split('/')[3], patch.split('/')[4]
    if only and pid not in only and '%s-%s' % (pid, m) not in only:
        continue
    dst = os.path.join(ROOT, 'seeded', '%s-%s' % (pid, m))
    meta_p = os.path.join(dst, 'meta.json')
    if os.path.exists(meta_p) and not only:
        continue
    out = subprocess.run([os.path.join(ROOT, 'tools', 'confirm_seed.sh'), pid, m], capture_output=True, text=True).stdout
    line = [l for l in out.split('\n') if l.startswith(pid)]
    print(line[0] if line else out[-300:], flush=True)
    if 'CONFIRMED' not in out:
        print('  REJECTED', pid, m)
        continue
    res = {}
    for tier in ('quick', 'thorough'):
        t0 = time.time()
        r = subprocess.run([os.path.join(ROOT, 'tools', 'try_patch.sh'), pid, os.path.join(dst, 'patch.diff'), tier], capture_output=True, text=True)
        txt = r.stdout
        viol = re.findall(r'violation: case=(\S+.*?) claim=(\S+)', txt)
        res[tier] = dict(exit=r.returncode, seconds=round(time.time() - t0), caught=(r.returncode == 1),
                         first_violations=['%s :: %s' % v for v in viol[:3]], summary=(txt.split('\n')[0][:300]))
        print('  %s: rc=%d %ds %s' % (tier, r.returncode, time.time() - t0, viol[:1]), flush=True)
        if r.returncode == 1:
            break
    notes = open(os.path.join(dst, 'notes.txt')).read() if os.path.exists(os.path.join(dst, 'notes.txt')) else ''
    diff = open(os.path.join(dst, 'patch.diff')).read()
    files = re.findall(r'^\+\+\+ b/(\S+)', diff, re.M)
    meta = dict(property=pid, breaks=props[pid]['title'], files=files,
                needs_to_manifest=notes.strip()[:1200],
                confirmed=dict(how='tools/confirm_seed.sh: scratch worktree of /repo HEAD; demo.py exits 0 without the patch and non-zero with it; '
                                   'pytest (42 tests) passes with the patch', result=line[0] if line else ''),
                checks_run=res, caught_by=('quick' if res.get('quick', {}).get('caught') else 'thorough' if res.get('thorough', {}).get('caught') else None),
                written_by='independent sub-agent given only the property text and a scratch worktree')
    json.dump(meta, open(meta_p, 'w'), indent=1)
