#!/bin/bash
# usage: tools/confirm_seed.sh <ID> <mN>   confirms an independently written breaking change in a scratch worktree:
#   tests pass with it, demo fails with it and passes without it.  On success copies it to $HERE/seeded/<ID>-<mN>/.
ID=$1; M=$2
HERE="$(cd "$(dirname "${BASH_SOURCE[0]}")/.." && pwd)"
SRC=/tmp/seeded-out/$ID/$M
WT=/tmp/wt-confirm-$ID-$M
[ -f $SRC/patch.diff ] || { echo "no patch"; exit 2; }
git -C /repo worktree add --detach $WT HEAD -q || exit 2
trap "git -C /repo worktree remove --force $WT" EXIT
cd $WT
PYTHONPATH=$WT /venv/bin/python $SRC/demo.py > /tmp/confirm.$ID.$M.clean 2>&1; rc_clean=$?
git apply $SRC/patch.diff || { echo "patch does not apply"; exit 2; }
/venv/bin/python -m pytest -q -p no:cacheprovider --timeout=900 > /tmp/confirm.$ID.$M.tests 2>&1
tests=$(grep -E "passed|failed" /tmp/confirm.$ID.$M.tests | tail -1)
PYTHONPATH=$WT /venv/bin/python $SRC/demo.py > /tmp/confirm.$ID.$M.mut 2>&1; rc_mut=$?
echo "$ID $M: demo clean rc=$rc_clean, demo mutated rc=$rc_mut, tests: $tests"
if [ $rc_clean -eq 0 ] && [ $rc_mut -ne 0 ] && echo "$tests" | grep -q "42 passed" && ! echo "$tests" | grep -q failed; then
  mkdir -p $HERE/seeded/$ID-$M
  cp $SRC/patch.diff $SRC/demo.py $HERE/seeded/$ID-$M/
  [ -f $SRC/notes.txt ] && cp $SRC/notes.txt $HERE/seeded/$ID-$M/
  echo CONFIRMED
else
  echo REJECTED
fi
