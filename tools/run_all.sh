#!/bin/bash
# Runs every claimed check at the given tier (default quick) and prints one summary line each.
cd "$(dirname "$0")/.."
TIER=${1:-quick}
for id in $(python3 -c "import json;print(' '.join(c['property_id'] for c in json.load(open('MANIFEST.json'))['checks']))"); do
  s=$(date +%s)
  out=$(./vcheck $id --tier $TIER 2>&1)
  rc=$?
  e=$(date +%s)
  echo "$id rc=$rc $((e-s))s :: $(echo "$out" | grep "^$id tier" | head -1)"
  echo "$out" | grep -E "VIOLATION|HARNESS-ERROR|ENCODING-MISMATCH|KNOWN-FINDING" | head -5
done
