#!/usr/bin/env python3
"""Writes seeded/README.md from the meta.json files."""
import glob, json, os
ROOT = os.path.dirname(os.path.dirname(os.path.abspath(__file__)))
rows = []
for mp in sorted(glob.glob(os.path.join(ROOT, 'seeded', '*', 'meta.json'))):
    m = json.load(open(mp))
    name = os.path.basename(os.path.dirname(mp))
    q = m['checks_run'].get('quick', {})
    t = m['checks_run'].get('thorough', {})
    first = (q.get('first_violations') or t.get('first_violations') or [''])[0]
    now = m.get('caught_after_strengthening')
    rows.append((name, ', '.join(m['files']), m.get('summary', m['needs_to_manifest'].split('\n')[0][:140]),
                 m['caught_by'] or 'missed', now or '', first))
out = ['# Seeded breaking changes', '',
       'Each directory holds a change to pkienzle/periodictable written by an independent sub-agent that was given only the text of',
       'one property and a scratch worktree (nothing from /verif): `patch.diff`, `demo.py` (passes on the unchanged library, fails with',
       'the patch) and `meta.json` (what it breaks, what it needs to manifest, what was run). Every change was confirmed by',
       '`tools/confirm_seed.sh` in a fresh worktree: the 42 tests pass with it, the demo fails with it and passes without it.',
       '`caught by` is the first tier of `./vcheck <ID>` that exits 1 with the patch applied, as first evaluated; `now` records the tier',
       'after the check was strengthened in response to a miss.', '',
       '| seed | file | change (first line of the author\'s note) | caught by (first evaluation) | now | first violated claim |',
       '|---|---|---|---|---|---|']
for r in rows:
    out.append('| %s | %s | %s | %s | %s | %s |' % tuple(str(x).replace('|', '/').replace('\n', ' ') for x in r))
open(os.path.join(ROOT, 'seeded', 'README.md'), 'w').write('\n'.join(out) + '\n')
print('wrote seeded/README.md with', len(rows), 'seeds')
