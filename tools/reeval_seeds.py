#!/usr/bin/env python3
"""Re-runs the quick check of each seeded change with the current machinery and records the outcome
under 'caught_after_strengthening' in its meta.json (uses a scratch worktree, /repo is not touched)."""
import glob, json, os, re, subprocess, sys, time
ROOT = os.path.dirname(os.path.dirname(os.path.abspath(__file__)))
WT = '/tmp/wt-reeval'
subprocess.run(['git', '-C', '/repo', 'worktree', 'add', '--detach', WT, 'HEAD', '-q'])
try:
    for mp in sorted(glob.glob(os.path.join(ROOT, 'seeded', '*', 'meta.json'))):
        d = os.path.dirname(mp)
        name = os.path.basename(d)
        if sys.argv[1:] and name not in sys.argv[1:] and name.split('-')[0] not in sys.argv[1:]:
            continue
        m = json.load(open(mp))
        t0 = time.time()
        env = dict(os.environ, TRY_REPO=WT)
        r = subprocess.run([os.path.join(ROOT, 'tools', 'try_patch.sh'), m['property'], os.path.join(d, 'patch.diff'), 'quick'],
                           capture_output=True, text=True, env=env)
        viol = re.findall(r'violation: case=(\S+.*?) claim=(\S+)', r.stdout)
        m['caught_after_strengthening'] = 'quick' if r.returncode == 1 else ('missed (rc=%d)' % r.returncode)
        m['now_first_violations'] = ['%s :: %s' % v for v in viol[:3]]
        json.dump(m, open(mp, 'w'), indent=1)
        print(name, m['caught_by'], '->', m['caught_after_strengthening'], '%ds' % (time.time() - t0), viol[:1], flush=True)
finally:
    subprocess.run(['git', '-C', '/repo', 'worktree', 'remove', '--force', WT])
