#!/usr/bin/env python3
"""Rewrites the table at the end of DESIGN.md section 9 from seeded/*/meta.json."""
import glob, json, os, re
ROOT = os.path.dirname(os.path.dirname(os.path.abspath(__file__)))
rows = []
for mp in sorted(glob.glob(os.path.join(ROOT, 'seeded', '*', 'meta.json')), key=lambda p: (os.path.basename(os.path.dirname(p)).split('-')[0], int(os.path.basename(os.path.dirname(p)).split('-m')[1]))):
    m = json.load(open(mp))
    name = os.path.basename(os.path.dirname(mp))
    q = m['checks_run'].get('quick', {})
    t = m['checks_run'].get('thorough', {})
    first = m['caught_by'] or 'missed'
    now = m.get('caught_after_strengthening') or ('quick' if m['caught_by'] == 'quick' else '')
    if m.get('outside'):
        now = 'outside (see text)'
    claim = (m.get('now_first_violations') or q.get('first_violations') or t.get('first_violations') or [''])[0]
    note = m['needs_to_manifest'].split('\n')[0][:110]
    rows.append('| %s | %s | %s | %s | %s |' % tuple(str(x).replace('|', '/').replace('\n', ' ') for x in (name, note, first, now, claim[:80])))
p = os.path.join(ROOT, 'DESIGN.md')
s = open(p).read()
head = '| seed | change (first line of its author\'s note) | first evaluation | now | claim that fails now |\n|---|---|---|---|---|\n'
i = s.index('| seed | change (first line')
s = s[:i] + head + '\n'.join(rows) + '\n'
open(p, 'w').write(s)
print(len(rows), 'rows')
