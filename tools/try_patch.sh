#!/bin/bash
# usage: tools/try_patch.sh <property> <patch.diff> [tier]   -- applies the patch to /repo, runs the check, reverts.
set -u
ID=$1; PATCH=$2; TIER=${3:-quick}
cd /repo || exit 3
if [ -n "$(git status --porcelain)" ]; then echo "/repo not clean"; exit 3; fi
git apply "$PATCH" || { echo "patch does not apply"; exit 3; }
cd /verif
timeout 3000 ./vcheck $ID --tier $TIER > /tmp/try_patch.$ID.log 2>&1
rc=$?
git -C /repo checkout -- .
echo "rc=$rc $(grep "^$ID tier" /tmp/try_patch.$ID.log | head -1)"
grep -E "^VIOLATION|^  violation|HARNESS-ERROR|ENCODING-MISMATCH" /tmp/try_patch.$ID.log | cut -c1-400 | head -6
exit $rc
