#!/bin/bash
# usage: tools/try_patch.sh <property> <patch.diff> [tier]
# Applies the patch to $TRY_REPO (default /repo), runs the check against it, reverts.  With TRY_REPO set to a
# scratch worktree the check imports periodictable from there (PYTHONPATH), so /repo itself stays untouched.
set -u
HERE="$(cd "$(dirname "${BASH_SOURCE[0]}")/.." && pwd)"
ID=$1; PATCH=$2; TIER=${3:-quick}
REPO=${TRY_REPO:-/repo}
cd $REPO || exit 3
if [ -n "$(git status --porcelain)" ]; then echo "$REPO not clean"; exit 3; fi
git apply "$PATCH" || { echo "patch does not apply"; exit 3; }
cd $HERE
if [ "$REPO" != "/repo" ]; then export PYTHONPATH=$REPO; fi
timeout 3000 ./vcheck $ID --tier $TIER > /tmp/try_patch.$ID.$$.log 2>&1
rc=$?
git -C $REPO checkout -- .
echo "rc=$rc $(grep "^$ID tier" /tmp/try_patch.$ID.$$.log | head -1)"
grep -E "^VIOLATION|^  violation" /tmp/try_patch.$ID.$$.log | cut -c1-400 | head -6
grep -E "HARNESS-ERROR|ENCODING-MISMATCH" /tmp/try_patch.$ID.$$.log | cut -c1-300 | head -3
rm -f /tmp/try_patch.$ID.$$.log
exit $rc
