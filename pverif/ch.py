"""Engine C: CrossHair (symbolic execution of real Python with z3) on small int/str functions of the repo.

Harness modules are generated into a scratch directory on every run; they import the functions
from /repo (nothing is copied).  Each condition runs as its own `crosshair check` process."""
from __future__ import annotations

import os
import re
import shutil
import subprocess
import sys
import tempfile
import time

ROOT = os.path.dirname(os.path.dirname(os.path.abspath(__file__)))


def run_conditions(module_text, functions, timeout_s=30, extra_path=()):
    """functions: list of function names defined in module_text (each with a PEP316 docstring).
    Returns {name: dict(verdict='confirmed'|'counterexample'|'unknown', message=..., seconds=...)}."""
    scratch = tempfile.mkdtemp(prefix='pverif_ch_')
    path = os.path.join(scratch, 'harness_mod.py')
    with open(path, 'w') as f:
        f.write(module_text)
    lines = module_text.split('\n')
    procs = {}
    env = dict(os.environ)
    env['PYTHONPATH'] = os.pathsep.join([ROOT] + list(extra_path) + [env.get('PYTHONPATH', '')])
    env['PYTHONDONTWRITEBYTECODE'] = '1'
    exe = os.path.join(os.path.dirname(sys.executable), 'crosshair')
    out = {}
    try:
        for fn in functions:
            ln = next(i for i, l in enumerate(lines) if l.startswith('def %s(' % fn)) + 2
            cmd = [exe, 'check', '--report_all', '--per_condition_timeout', str(timeout_s),
                   '--per_path_timeout', str(max(2, timeout_s // 4)), '%s:%d' % (path, ln)]
            procs[fn] = (subprocess.Popen(cmd, stdout=subprocess.PIPE, stderr=subprocess.STDOUT, text=True, env=env, cwd=scratch),
                         time.time())
        for fn, (p, st) in procs.items():
            try:
                txt, _ = p.communicate(timeout=timeout_s * 3 + 60)
            except subprocess.TimeoutExpired:
                p.kill()
                txt = 'timeout'
            dt = time.time() - st
            v = 'unknown'
            if 'Confirmed over all paths' in txt:
                v = 'confirmed'
            elif re.search(r'error: (false|.*) when calling', txt) or 'error:' in txt and 'when calling' in txt:
                v = 'counterexample'
            elif 'Not confirmed' in txt or 'Unable to meet precondition' in txt:
                v = 'unknown'
            out[fn] = dict(verdict=v, message=txt.strip()[-600:], seconds=round(dt, 2))
    finally:
        shutil.rmtree(scratch, ignore_errors=True)
    return out


def parse_counterexample(message):
    """'... when calling f("2-")' -> the argument text"""
    m = re.search(r'when calling \w+\((.*?)\) \(which ', message) or re.search(r'when calling \w+\((.*)\)', message)
    return m.group(1) if m else None


def crosshair_case(case_name, module_text, replays, timeout_s=40):
    """Run the conditions of module_text; `replays[fn]` is a callable(argtext) -> (failed: bool, observed)
    used to replay a reported counterexample on the real code.  Returns a runner result dict."""
    t0 = time.time()
    res = dict(paths=len(replays), claims=0, discharged=0, queries=0, distinct=0, violations=[], inconclusive=[],
               samples=[], solver_s=0.0, complete=True)
    out = run_conditions(module_text, list(replays), timeout_s=timeout_s)
    for fn, r in out.items():
        res['claims'] += 1
        res['queries'] += 1
        res['solver_s'] += r['seconds']
        if r['verdict'] == 'confirmed':
            res['discharged'] += 1
            res['distinct'] += 1
            if len(res['samples']) < 4:
                doc = module_text.split('def %s(' % fn, 1)[1].split('"""')[1]
                res['samples'].append(dict(condition=fn, contract=' '.join(doc.split()), verdict='Confirmed over all paths',
                                           seconds=r['seconds']))
        elif r['verdict'] == 'counterexample':
            arg = parse_counterexample(r['message'])
            failed, observed = (False, None)
            if arg is not None:
                try:
                    failed, observed = replays[fn](arg)
                except Exception as e:   # noqa: BLE001
                    failed, observed = False, 'replay raised %r' % (e,)
            if failed:
                res['violations'].append(dict(case=case_name, claim=fn, values={'args': arg}, observed=[observed, r['message'][-300:]],
                                              how='CrossHair counterexample replayed on the real function'))
            else:
                res['inconclusive'].append(dict(case=case_name, claim=fn, why='CrossHair counterexample %r did not replay: %s' % (arg, observed)))
        else:
            res['inconclusive'].append(dict(case=case_name, claim=fn, why='CrossHair: ' + r['message'][-200:].replace('\n', ' ')))
    res['wall_s'] = time.time() - t0
    return res
