"""vcheck CLI:  vcheck C03 [--tier quick|thorough] [--only REGEX] [--jobs N] [-v] | vcheck replay FILE"""
import argparse
import os
import sys


def main(argv=None):
    argv = list(sys.argv[1:] if argv is None else argv)
    from . import runner
    if argv and argv[0] == 'replay':
        return runner.replay(argv[1])
    ap = argparse.ArgumentParser()
    ap.add_argument('property')
    ap.add_argument('--tier', default=os.environ.get('VERIF_TIER', 'quick'), choices=['quick', 'thorough'])
    ap.add_argument('--only', default=None)
    ap.add_argument('--jobs', type=int, default=None)
    ap.add_argument('-v', '--verbose', action='store_true')
    a = ap.parse_args(argv)
    seed = int(os.environ.get('VERIF_SEED', '0') or 0)
    return runner.run_property(a.property.upper(), a.tier, seed, only=a.only, jobs=a.jobs, verbose=a.verbose)


if __name__ == '__main__':
    try:
        rc = main()
    except SystemExit:
        raise
    except BaseException:   # noqa: BLE001 - a crash of the machinery must never look like a violation (exit 1)
        import traceback
        traceback.print_exc()
        print('HARNESS-ERROR the check itself crashed')
        rc = 2
    sys.exit(rc)
