"""Case runner: explores each harness, discharges its claims, replays counterexamples,
validates the encoding on concrete points, writes evidence."""
from __future__ import annotations

import hashlib
import importlib
import inspect
import json
import multiprocessing as mp
import os
import random
import re
import sys
import time
import traceback
from fractions import Fraction

import z3

from . import sym, solve, stubs
from .env import SymEnv, ConcEnv, AssumptionFailed
from .sym import HarnessError

ROOT = os.path.dirname(os.path.dirname(os.path.abspath(__file__)))
EXIT_OK, EXIT_VIOLATION, EXIT_HARNESS = 0, 1, 2


class Case:
    def __init__(self, name, fn, max_paths=64, timeout_ms=20000, branch_timeout_ms=4000,
                 portfolio=False, float_modules=(), nsamples=2, conc_rel=1e-6, conc_abs=0.0,
                 custom=None, budget_s=None, expect_incomplete=False, validate=True, mode=None, domain_checks=True):
        self.name = name
        self.fn = fn
        self.max_paths = max_paths
        self.timeout_ms = timeout_ms
        self.branch_timeout_ms = branch_timeout_ms
        self.portfolio = portfolio
        self.float_modules = tuple(float_modules)
        self.nsamples = nsamples
        self.conc_rel = conc_rel
        self.conc_abs = conc_abs
        self.custom = custom          # custom(case, tier, seed) -> result dict (engines B / C)
        self.budget_s = budget_s
        self.expect_incomplete = expect_incomplete
        self.validate = validate
        self.mode = dict(mode or {})
        self.domain_checks = domain_checks


# ------------------------------------------------------------------ helpers
def _base(name):
    return re.sub(r'\.(re|im)$', '', name)


def _run_conc(case, values, rng):
    E = ConcEnv(values=values, rng=rng, rel=case.conc_rel, abs_tol=case.conc_abs)
    try:
        case.fn(E)
    except AssumptionFailed as e:
        return E, 'assumption: %s' % e
    except HarnessError as e:
        return E, 'harness: %s' % e
    except Exception as e:   # noqa: BLE001 - repo code failing on concrete input is an outcome
        tb = traceback.extract_tb(e.__traceback__)
        where = ''
        for fr in reversed(tb):
            if '/repo/' in fr.filename:
                where = ' at %s:%d' % (os.path.basename(fr.filename), fr.lineno)
                break
        E.results.append(('no_exception', False, '%s: %s%s' % (type(e).__name__, e, where), None))
    return E, None


def _is_noise(case, vals, name, a, b):
    """Is the failing comparison a == b at `vals` mere floating-point noise?  The local magnitude of the compared
    quantity is taken from runs with every input moved by +-0.1 %: if |a-b| is below 1e-8 of that magnitude the
    failure sits on a zero crossing (cancellation) and says nothing about the formula."""
    try:
        a, b = complex(a), complex(b)
    except (TypeError, ValueError):
        return False
    if a != a or b != b:
        return False
    dev = abs(a - b)
    scale = 0.0
    for eps in (1.001, 0.999):
        pv = {k: (x * eps if isinstance(x, (int, float)) else x) for k, x in vals.items()}
        CE, skip = _run_conc(case, pv, None)
        if skip:
            continue
        for n2, ok2, a2, b2 in CE.results:
            if _base(n2) == _base(name):
                try:
                    scale = max(scale, abs(complex(a2)), abs(complex(b2)))
                except (TypeError, ValueError):
                    pass
    return scale > 0 and dev <= 1e-8 * scale


def _sym_harness(case):
    def h():
        E = SymEnv()
        sym.MODE.clear()
        sym.MODE.update(case.mode)
        try:
            with stubs.patched(float_modules=case.float_modules):
                case.fn(E)
        except HarnessError:
            raise
        except Exception as e:   # noqa: BLE001
            tb = traceback.extract_tb(e.__traceback__)
            inrepo = [fr for fr in tb if '/repo/' in fr.filename]
            inpv = tb[-1].filename.startswith(ROOT) if tb else False
            if inpv and os.sep + 'props' + os.sep in tb[-1].filename and isinstance(e, (TypeError, ValueError, AttributeError, IndexError, KeyError)):
                # raised by the harness itself while consuming what the code returned (e.g. unpacking None):
                # an outcome of the code on this path; it only counts if the concrete replay raises it too
                inpv = False
            where = ''
            if inrepo:
                where = ' at %s:%d' % (os.path.basename(inrepo[-1].filename), inrepo[-1].lineno)
            if inpv and not isinstance(e, (ZeroDivisionError,)):
                # raised inside the proxies: machinery problem, not an outcome of the code
                raise HarnessError('proxy raised %s: %s%s' % (type(e).__name__, e, where)) from e
            E.fact('no_exception', False, note='%s: %s%s' % (type(e).__name__, e, where))
        return E
    return h


def _nice_model(path, neg, inputs, timeout_ms):
    """Prefer a counterexample with moderate magnitudes (replays well in floats)."""
    for lo, hi in ((Fraction(1, 100), 100), (Fraction(1, 10**4), 10**4), (Fraction(1, 10**8), 10**8)):
        s = z3.Solver()
        s.add(*path.assumptions)
        s.add(*path.axioms)
        s.add(*path.pc)
        s.add(neg)
        for v in inputs.values():
            s.add(z3.Or(v == 0, z3.And(v >= sym.qval(lo), v <= hi), z3.And(v <= -sym.qval(lo), v >= -hi)))
        if sym.zcheck(s, min(timeout_ms, 10000)) == z3.sat:
            return s.model()
    return None


def _model_inputs(m, inputs):
    vals = {}
    for k, v in inputs.items():
        try:
            vals[k] = float(solve.model_value(m, v))
        except solve.Unsupported:
            vals[k] = None
    return vals


def _neg_of(claim, kappa=None):
    if claim.kind == 'bool':
        return z3.Not(claim.t)
    a, b = claim.a, claim.b
    absb = z3.If(b >= 0, b, -b)
    absa = z3.If(a >= 0, a, -a)
    tol = z3.RatVal(1, 10**6)
    return z3.Or(a - b > tol * absb + tol * absa, b - a > tol * absb + tol * absa)


# ------------------------------------------------------------------ one case
def run_case(case, tier, seed):
    t0 = time.time()
    res = dict(case=case.name, paths=0, complete=True, claims=0, discharged=0, inconclusive=[],
               violations=[], unreproduced=[], queries=0, solver_s=0.0, how={}, samples=[],
               validation_points=0, validation_mismatch=[], vacuity_ok=True, stub_calls={},
               branch_decisions=0, harness_error=None, aborted=0, unknown_branches=0, distinct=0)
    if case.custom is not None:
        try:
            r = case.custom(case, tier, seed)
            res.update(r)
        except Exception as e:  # noqa: BLE001
            res['harness_error'] = 'custom engine failed: %s\n%s' % (e, traceback.format_exc()[-1500:])
        res['wall_s'] = time.time() - t0
        return res
    rng = random.Random((seed, case.name).__repr__())
    # ---- 1. concrete validation points (also the cheapest bug finder)
    conc_runs = []
    for i in range(case.nsamples):
        E, skip = _run_conc(case, {}, rng)
        if skip and skip.startswith('harness'):
            res['harness_error'] = 'concrete mode: ' + skip
            res['wall_s'] = time.time() - t0
            return res
        if skip:
            continue
        conc_runs.append(E)
        for name, ok, a, b in E.failures:
            if b is not None and _is_noise(case, E.used, name, a, b):
                continue
            res['violations'].append(dict(case=case.name, claim=name, values=E.used, observed=[a, b],
                                          how='concrete validation point'))
    # ---- 2. symbolic exploration
    try:
        paths, complete, aborted = sym.explore(_sym_harness(case), max_paths=case.max_paths,
                                               branch_timeout_ms=case.branch_timeout_ms)
    except HarnessError as e:
        res['harness_error'] = 'symbolic mode: %s' % e
        res['wall_s'] = time.time() - t0
        return res
    res['paths'] = len(paths)
    if not paths:
        res['harness_error'] = 'no feasible path explored (vacuous harness)'
        res['wall_s'] = time.time() - t0
        return res
    res['complete'] = bool(complete)
    res['aborted'] = aborted
    seen_claims = set()
    seen_viol = set((v['claim']) for v in res['violations'])
    for pi, p in enumerate(paths):
        if p.exc is not None:
            res['inconclusive'].append(dict(case=case.name, path=pi, claim='<path aborted>', why=str(p.exc)))
            continue
        E = p.result
        res['branch_decisions'] += len(p.decisions)
        res['unknown_branches'] += p.unknown_branches
        for k, v in p.stub_calls.items():
            res['stub_calls'][k] = res['stub_calls'].get(k, 0) + v
        # vacuity twin: the path's assumptions must be satisfiable
        s = z3.Solver()
        s.add(*p.assumptions)
        s.add(*p.axioms)
        s.add(*p.pc)
        r = sym.zcheck(s, 10000)
        if r == z3.unsat:
            res['vacuity_ok'] = False
            res['inconclusive'].append(dict(case=case.name, path=pi, claim='<vacuous path>', why='pc unsat'))
            continue
        path_model = s.model() if r == z3.sat else None
        # encoding validation: concrete sample lying on this path
        underdetermined = any(v.split('!')[0] in ('cosd', 'exp', 'log', 'cos', 'sin', 'csqrt_re', 'csqrt_im')
                              for ax in p.axioms for v in sym.term_vars(ax))
        for CE in (conc_runs if case.validate else []):
            sv = z3.Solver()
            sv.add(*p.assumptions); sv.add(*p.axioms); sv.add(*p.pc)
            ok = True
            for k, var in E.inputs.items():
                if k not in CE.used:
                    ok = False
                    break
                sv.add(var == sym.qval(CE.used[k]))
            if not ok or sym.zcheck(sv, 10000) != z3.sat:
                continue
            m = sv.model()
            cvals = {}
            for name, okc, a, b in CE.results:
                cvals.setdefault(name, a)
            for cl in E.claims:
                if cl.kind != 'eq' or _base(cl.name) not in cvals:
                    continue
                if underdetermined:
                    continue      # under-determined stub values: the model need not pick the true function value
                ca = cvals[_base(cl.name)]
                try:
                    if isinstance(ca, str):
                        ca = complex(ca.strip('()')) if 'j' in ca else float(ca)
                    ca = ca.imag if cl.name.endswith('.im') else (ca.real if isinstance(ca, complex) else ca)
                    sa = float(solve.model_value(m, cl.a))
                except (solve.Unsupported, ValueError, TypeError):
                    continue
                res['validation_points'] += 1
                if abs(sa - ca) > max(1e-7, case.conc_rel) * max(abs(sa), abs(ca)) + 1e-300:
                    res['validation_mismatch'].append(dict(case=case.name, claim=cl.name, symbolic=sa, concrete=ca))
        from .env import Claim as _Claim
        dom_claims = []
        seen_dom = set()
        for k, (kind, term, idx) in enumerate(p.domain if case.domain_checks else []):
            key = z3.simplify(term).get_id()
            if key in seen_dom:
                continue
            seen_dom.add(key)
            dc = _Claim('domain:%s#%d' % (kind, k), 'bool', t=(term >= 0), note='argument of sqrt must be >= 0 here: %s' % _clip(str(z3.simplify(term)), 160))
            dc.hyps = p.cons_order[:idx]
            dom_claims.append(dc)
        for cl in list(E.claims) + dom_claims:
            res['claims'] += 1
            v = solve.discharge(p, cl, timeout_ms=case.timeout_ms, portfolio=case.portfolio)
            res['queries'] += v.queries
            res['solver_s'] += v.seconds
            res['how'][v.how.split(' ')[0]] = res['how'].get(v.how.split(' ')[0], 0) + 1
            key = (cl.name, v.how.split(' ')[0] != 'trivial' and v.how.split(' ')[0] != 'syntactic')
            if v.status == 'unsat':
                res['discharged'] += 1
                if v.how not in ('trivial', 'syntactic'):
                    seen_claims.add((pi, cl.name))
                if len(res['samples']) < 3 and v.how not in ('trivial', 'syntactic'):
                    res['samples'].append(dict(case=case.name, path=pi, claim=cl.name, verdict='unsat', how=v.how,
                                               seconds=round(v.seconds, 3),
                                               obligation=_clip(_claim_text(cl)), path_condition=_trace_txt(p),
                                               smt2=(solve.smt2_for(p, cl) if len(res['samples']) == 0 else None)))
            elif v.status == 'unknown':
                res['inconclusive'].append(dict(case=case.name, path=pi, claim=cl.name, why=v.how))
            else:
                # candidate counterexample -> replay on the real code with floats
                if _base(cl.name) in seen_viol:
                    continue
                neg = _neg_of(cl)
                m = _nice_model(p, neg, E.inputs, case.timeout_ms) or v.model
                tried = []
                confirmed = None
                for mm in (m, v.model):
                    if mm is None:
                        continue
                    vals = _model_inputs(mm, E.inputs)
                    if any(x is None for x in vals.values()):
                        continue
                    CE, skip = _run_conc(case, vals, None)
                    tried.append(vals)
                    if skip:
                        continue
                    fails = CE.failures
                    same = [f for f in fails if _base(f[0]) == _base(cl.name)]
                    if not same and cl.name == 'no_exception':
                        same = [f for f in fails if f[0] == 'no_exception']
                    if not same and cl.name.startswith('domain:'):
                        same = fails[:1]        # sqrt of a negative number shows up as NaN / ValueError in whatever is claimed
                    if same and cl.kind == 'eq' and same[0][3] is not None and _is_noise(case, vals, same[0][0], same[0][2], same[0][3]):
                        same = []
                    if same and v.how.startswith('tolerance'):
                        # candidate produced by the relative-tolerance stage: a rounding-level difference looks material
                        # wherever the compared quantity crosses zero.  A wrong formula persists when the inputs move by
                        # 0.1 %; a cancellation artefact does not.
                        persist = 0
                        for eps in (1.001, 0.999, 1.0007):
                            pv = {k: x * eps ** (1 + (i % 3)) for i, (k, x) in enumerate(sorted(vals.items()))}
                            CE2, skip2 = _run_conc(case, pv, None)
                            if not skip2 and any(_base(f[0]) == _base(cl.name) for f in CE2.failures):
                                persist += 1
                        if persist < 2:
                            same = []
                    if same:
                        confirmed = dict(case=case.name, claim=_base(same[0][0]), values=vals,
                                         observed=[same[0][2], same[0][3]], how='solver model (%s), replayed' % v.how,
                                         path=_trace_txt(p),
                                         note=cl.note)
                        break
                if confirmed:
                    seen_viol.add(confirmed['claim'])
                    res['violations'].append(confirmed)
                else:
                    res['unreproduced'].append(dict(case=case.name, path=pi, claim=cl.name, how=v.how,
                                                    values=tried[:1], note=cl.note))
    res['distinct'] = len(seen_claims)
    res['wall_s'] = time.time() - t0
    return res


def _trace_txt(p):
    return [_clip(str(t), 100) + ('' if d else ' [false]') for t, d in p.trace][:8]


def _claim_text(cl):
    if cl.kind == 'bool':
        return str(z3.simplify(cl.t))
    return '%s  ==  %s' % (z3.simplify(cl.a), z3.simplify(cl.b))


def _clip(s, n=600):
    s = re.sub(r'\s+', ' ', s)
    return s if len(s) <= n else s[:n] + ' ...'


# ------------------------------------------------------------------ pool
_CASES = []
_SELFTEST = {}


def _worker(args):
    i, tier, seed = args
    case = _CASES[i]
    try:
        return run_case(case, tier, seed)
    except Exception as e:  # noqa: BLE001
        return dict(case=case.name, harness_error='%s: %s\n%s' % (type(e).__name__, e, traceback.format_exc()[-2000:]),
                    paths=0, complete=False, claims=0, discharged=0, inconclusive=[], violations=[], unreproduced=[],
                    queries=0, solver_s=0.0, how={}, samples=[], validation_points=0, validation_mismatch=[],
                    vacuity_ok=True, stub_calls={}, branch_decisions=0, aborted=0, unknown_branches=0, distinct=0,
                    wall_s=0.0)


def _child(i, tier, seed, conn):
    try:
        r = _worker((i, tier, seed))
    except BaseException as e:  # noqa: BLE001
        r = _empty(_CASES[i].name, 'worker died: %r' % (e,))
    try:
        conn.send(r)
    finally:
        conn.close()


def _empty(name, err=None, timeout=False):
    r = dict(case=name, harness_error=err, paths=0, complete=False, claims=0, discharged=0, inconclusive=[],
             violations=[], unreproduced=[], queries=0, solver_s=0.0, how={}, samples=[], validation_points=0,
             validation_mismatch=[], vacuity_ok=True, stub_calls={}, branch_decisions=0, aborted=0, unknown_branches=0,
             distinct=0, wall_s=0.0)
    if timeout:
        r['inconclusive'] = [dict(case=name, claim='<whole case>', why='case wall-time budget exhausted; process killed')]
        r['timed_out'] = True
    return r


def _schedule(cases, tier, seed, jobs, default_budget, verbose):
    """One forked process per case, at most `jobs` at a time, each killed at its wall-time budget
    (a killed case is reported inconclusive, never as success)."""
    ctxm = mp.get_context('fork')
    pending = list(range(len(cases)))
    running = {}
    results = []
    while pending or running:
        while pending and len(running) < jobs:
            i = pending.pop(0)
            pr, pw = ctxm.Pipe(duplex=False)
            proc = ctxm.Process(target=_child, args=(i, tier, seed, pw))
            proc.start()
            pw.close()
            running[i] = (proc, pr, time.time())
        done = []
        for i, (proc, pr, st) in running.items():
            budget = cases[i].budget_s or default_budget
            r = None
            if pr.poll(0):
                try:
                    r = pr.recv()
                except EOFError:
                    r = _empty(cases[i].name, 'worker exited without a result (exit code %s)' % proc.exitcode)
            elif not proc.is_alive():
                if pr.poll(0.2):
                    try:
                        r = pr.recv()
                    except EOFError:
                        r = None
                if r is None:
                    r = _empty(cases[i].name, 'worker crashed (exit code %s)' % proc.exitcode)
            elif time.time() - st > budget:
                proc.kill()
                r = _empty(cases[i].name, None, timeout=True)
                r['wall_s'] = time.time() - st
            if r is not None:
                proc.join(timeout=5)
                if proc.is_alive():
                    proc.kill()
                pr.close()
                done.append(i)
                results.append(r)
                if verbose:
                    _print_case(r)
        for i in done:
            del running[i]
        if not done:
            time.sleep(0.05)
    return results


def warmup():
    """Touch every public lazy property group in canonical order before anything else."""
    import periodictable as pt
    for attr in ('covalent_radius', 'crystal_structure', 'neutron', 'xray', 'K_alpha', 'magnetic_ff'):
        try:
            getattr(pt.Fe, attr)
        except Exception:  # noqa: BLE001
            pass
    try:
        pt.Fe[56].neutron_activation
    except Exception:  # noqa: BLE001
        pass
    from periodictable import nsf, xsf, activation, fasta, formulas, cromermann  # noqa: F401


def load_findings():
    p = os.path.join(ROOT, 'known_findings.json')
    if not os.path.exists(p):
        return []
    return json.load(open(p)).get('findings', [])


def match_finding(pid, v, findings):
    for f in findings:
        if f.get('status', 'open') != 'open' or f['property'] != pid:
            continue
        if re.search(f['case'], v['case']) and re.search(f['claim'], v['claim']):
            return f
    return None


def source_hashes(names):
    out = {}
    for n in names:
        modname, _, attr = n.partition(':')
        try:
            obj = importlib.import_module(modname)
            for part in attr.split('.') if attr else []:
                obj = getattr(obj, part)
            src = inspect.getsource(obj)
            out[n] = hashlib.sha1(src.encode()).hexdigest()[:12]
        except Exception as e:  # noqa: BLE001
            out[n] = 'unavailable (%s)' % type(e).__name__
    return out


def run_property(pid, tier='quick', seed=0, only=None, jobs=None, verbose=False):
    t0 = time.time()
    warmup()
    mod = importlib.import_module('pverif.props.%s' % pid.lower())
    cases = mod.cases(tier)
    global _SELFTEST
    _SELFTEST = {}
    if 'interp' in getattr(mod, 'META', {}).get('stubs', ''):
        try:
            _SELFTEST['interp_model_vs_numpy_points'] = sym.selftest_interp(seed)
        except HarnessError as e:
            print('HARNESS-ERROR stub self-test: %s' % e)
            return EXIT_HARNESS
    if only:
        cases = [c for c in cases if re.search(only, c.name)]
    global _CASES
    _CASES = cases
    jobs = jobs or min(16, max(1, len(cases)))
    default_budget = 240 if tier == 'quick' else 1500
    results = []
    if jobs == 1 and os.environ.get('PVERIF_INPROCESS'):
        for i in range(len(cases)):
            results.append(_worker((i, tier, seed)))
            if verbose:
                _print_case(results[-1])
    else:
        results = _schedule(cases, tier, seed, jobs, default_budget, verbose)
    results.sort(key=lambda r: r['case'])
    return finish(pid, tier, seed, mod, results, time.time() - t0)


def _print_case(r):
    print('  case %-50s paths=%-3d claims=%-4d discharged=%-4d inconcl=%-3d viol=%d unrep=%d %.1fs%s' % (
        r['case'][:50], r['paths'], r['claims'], r['discharged'], len(r['inconclusive']), len(r['violations']),
        len(r['unreproduced']), r.get('wall_s', 0), '  HARNESS-ERROR ' + r['harness_error'][:300] if r.get('harness_error') else ''),
        flush=True)


def finish(pid, tier, seed, mod, results, wall):
    findings = load_findings()
    meta = getattr(mod, 'META', {})
    tot = lambda k: sum(r.get(k, 0) for r in results)  # noqa: E731
    violations = []
    _seen = set()
    for r in results:
        for v in r['violations']:
            k = (v['case'], v['claim'])
            if k not in _seen:
                _seen.add(k)
                violations.append(v)
    known, new = [], []
    for v in violations:
        f = match_finding(pid, v, findings)
        (known if f else new).append((v, f))
    harness_errors = [(r['case'], r['harness_error']) for r in results if r.get('harness_error')]
    mismatches = [m for r in results for m in r['validation_mismatch']]
    inconclusive = [i for r in results for i in r['inconclusive']]
    unreproduced = [u for r in results for u in r['unreproduced']]
    incomplete = [r['case'] for r in results if not r['complete']]
    how = {}
    for r in results:
        for k, v in r['how'].items():
            how[k] = how.get(k, 0) + v
    samples = [s for r in results for s in r['samples']][:8]
    if not samples:
        samples = [dict(case=r['case'], paths=r['paths'], claims=r['claims']) for r in results[:3]]
    os.makedirs(os.path.join(ROOT, 'evidence'), exist_ok=True)
    os.makedirs(os.path.join(ROOT, 'replays'), exist_ok=True)
    replay_paths = []
    for n, (v, _f) in enumerate(new):
        rp = os.path.join(ROOT, 'replays', '%s-%d.json' % (pid, n))
        json.dump(dict(property=pid, tier=tier, **v), open(rp, 'w'), indent=1, default=str)
        replay_paths.append(rp)
    decided = tot('discharged')
    ev = dict(
        property_id=pid, tier=tier, seed=int(seed), level='model_checking',
        coverage=dict(
            evaluations=int(tot('queries')) or int(tot('claims')) or 1,
            distinct_nontrivial=int(tot('distinct')),
            rule=("one evaluation = one solver query; distinct_nontrivial = number of distinct (case, path, claim) "
                  "obligations decided unsat by the solver that were not syntactically trivial"),
            samples=samples,
            cases=len(results), paths=int(tot('paths')), branch_decisions=int(tot('branch_decisions')),
            obligations=int(tot('claims')), discharged=int(decided),
            inconclusive=len(inconclusive), inconclusive_list=inconclusive[:40],
            unreproduced_counterexamples=len(unreproduced), unreproduced_list=unreproduced[:20],
            incomplete_cases=incomplete,
            violations_new=len(new), known_findings_hit=len(known),
            encoding_validation_points=int(tot('validation_points')),
            encoding_validation_mismatches=mismatches[:10],
            solver_s=round(tot('solver_s'), 2), discharge_methods=how,
            solvers=['z3 %s (python API)' % z3.get_version_string()] + (['cvc5 binary', 'z3 4.8.12 binary'] if any(getattr(c, 'portfolio', False) for c in _CASES) else []),
            stub_calls={k: sum(r['stub_calls'].get(k, 0) for r in results) for k in set().union(*[r['stub_calls'].keys() for r in results])} if results else {},
            functions_encoded=source_hashes(meta.get('functions', [])),
            bounds=meta.get('bounds', ''), outside=meta.get('outside', ''),
            stubs=meta.get('stubs', ''), stub_selftests=dict(_SELFTEST),
            per_case=[dict(case=r['case'], paths=r['paths'], complete=r['complete'], claims=r['claims'],
                           discharged=r['discharged'], wall_s=round(r.get('wall_s', 0), 2)) for r in results][:400],
            harness_errors=harness_errors[:10],
            exhaustive=False,
        ),
        assumptions=meta.get('assumptions', []),
        wall_s=round(wall, 2), violations=len(new))
    json.dump(ev, open(os.path.join(ROOT, 'evidence', '%s.json' % pid), 'w'), indent=1, default=str)
    print('%s tier=%s: cases=%d paths=%d obligations=%d discharged=%d inconclusive=%d unreproduced=%d '
          'violations=%d known=%d solver=%.1fs wall=%.1fs' % (
              pid, tier, len(results), tot('paths'), tot('claims'), decided, len(inconclusive), len(unreproduced),
              len(new), len(known), tot('solver_s'), wall))
    for i in inconclusive[:10]:
        print('  INCONCLUSIVE %s' % json.dumps(i, default=str)[:300])
    for u in unreproduced[:10]:
        print('  UNREPRODUCED %s' % json.dumps(u, default=str)[:400])
    if incomplete:
        print('  INCOMPLETE (path budget hit): %s' % incomplete[:10])
    seen = set()
    for v, f in known:
        if f['id'] in seen:
            continue
        seen.add(f['id'])
        print('KNOWN-FINDING: property=%s %s [%s]' % (pid, f['what'], f['id']))
    if harness_errors or mismatches:
        for c, e in harness_errors[:10]:
            print('HARNESS-ERROR case=%s %s' % (c, e[:1500]))
        for m in mismatches[:10]:
            print('ENCODING-MISMATCH %s' % json.dumps(m, default=str))
    for (v, _), rp in zip(new, replay_paths):
        print('  violation: case=%s claim=%s values=%s observed=%s how=%s' % (
            v['case'], v['claim'], json.dumps(v['values'], default=str)[:300], v.get('observed'), v.get('how')))
        print('VIOLATION property=%s replay=%s' % (pid, rp))
    if new:
        return EXIT_VIOLATION
    if harness_errors or mismatches:
        return EXIT_HARNESS
    return EXIT_OK


def replay(path):
    warmup()
    d = json.load(open(path))
    pid = d['property']
    mod = importlib.import_module('pverif.props.%s' % pid.lower())
    for tier in ('quick', 'thorough'):
        for c in mod.cases(tier):
            if c.name == d['case']:
                if c.custom is not None:
                    print('replay of engine B/C case: see file contents:', json.dumps(d, indent=1)[:2000])
                    return EXIT_VIOLATION
                E, skip = _run_conc(c, d['values'], None)
                print('replay %s case=%s values=%s' % (pid, c.name, d['values']))
                for name, ok, a, b in E.results:
                    print('  %-40s %s  %s  %s' % (name, 'ok ' if ok else 'FAIL', a, b if b is not None else ''))
                if skip:
                    print('  skipped:', skip)
                return EXIT_VIOLATION if E.failures else EXIT_OK
    print('case not found: %s' % d['case'])
    return EXIT_HARNESS
