"""Running the real pyparsing grammar on skeleton strings whose count literals are symbols.

A skeleton is a derivation tree of the documented grammar.  It renders to a concrete string in
which every count literal is a distinct placeholder numeral; ``formulas.float``/``formulas.int``
are patched (module globals, restored afterwards) so the grammar's own token actions turn each
placeholder into its SymReal.  In concrete (replay) mode the literal is rendered from the float.
The tree also carries its own denotation (the oracle): a count multiplies everything in its
group, repeated atoms add.
"""
from __future__ import annotations

import builtins
import contextlib
import itertools

from . import sym
from .sym import SymReal

_PLACE = {}          # placeholder text -> SymReal
_NEXT = itertools.count(1001)


def _symfloat(x=0.0):
    if isinstance(x, SymReal):
        return x
    if isinstance(x, str) and x in _PLACE:
        return _PLACE[x]
    return builtins.float(x)


def _symint(x=0, *a):
    if isinstance(x, SymReal):
        return x
    if isinstance(x, str) and not a and x in _PLACE:
        return _PLACE[x]
    return builtins.int(x, *a)


@contextlib.contextmanager
def parsing(E):
    """patch float/int in periodictable.formulas while parsing in symbolic mode"""
    from periodictable import formulas
    if not E.symbolic:
        yield
        return
    saved = [(k, vars(formulas).get(k, None), k in vars(formulas)) for k in ('float', 'int')]
    formulas.float = _symfloat
    formulas.int = _symint
    try:
        yield
    finally:
        for k, v, had in saved:
            if had:
                setattr(formulas, k, v)
            else:
                try:
                    delattr(formulas, k)
                except AttributeError:
                    pass


def reset():
    global _NEXT
    _PLACE.clear()
    _NEXT = itertools.count(1001)


def render_number(v, kind):
    """decimal text (no exponent) accepted by the count grammar"""
    if kind == 'whole':
        return str(max(1, builtins.int(round(v))))
    s = ('%.10f' % v).rstrip('0')
    if s.endswith('.'):
        s += '0'
    return s


class Lit:
    """a count literal of the skeleton"""
    def __init__(self, E, name, kind='whole', lo=None, hi=1000, style=None):
        self.name, self.kind = name, kind
        if E.symbolic:
            n = next(_NEXT)
            self.text = str(n) if kind == 'whole' else ('%d.5' % n if style != 'dot' else '%d.' % n)
            shadow = builtins.float(self.text)
            if kind == 'whole':
                self.value = E.real(name, lo=1, hi=hi, sample=shadow)
            else:
                self.value = E.real(name, lo=0 if lo is None else lo, lo_open=True, hi=hi, sample=shadow)
            self.value.shadow = shadow
            _PLACE[self.text] = self.value
        else:
            if kind == 'whole':
                v = E.real(name, lo=1, hi=hi)
            else:
                v = E.real(name, lo=0 if lo is None else lo, lo_open=True, hi=hi)
            self.text = render_number(v, kind)
            self.value = builtins.int(self.text) if kind == 'whole' else builtins.float(self.text)
            if kind != 'whole' and self.value <= 0:
                self.text, self.value = '0.0000000001', 1e-10
            E.used[name] = builtins.float(self.value)     # the value actually denoted by the rendered text


def ion_text(q, explicit_one=False):
    if q == 0:
        return ''
    n = abs(q)
    return '{%s%s}' % (str(n) if (n > 1 or explicit_one) else '', '+' if q > 0 else '-')


class AtomT:
    def __init__(self, symbol, iso=0, ion=0, count=None, explicit_one=False):
        self.symbol, self.iso, self.ion, self.count, self.explicit_one = symbol, iso, ion, count, explicit_one

    def render(self):
        return (self.symbol + ('[%d]' % self.iso if self.iso else '') + ion_text(self.ion, self.explicit_one)
                + (self.count.text if self.count else ''))

    def atom(self, table):
        a = table.symbol(self.symbol)
        if self.iso:
            a = a[self.iso]
        if self.ion:
            a = a.ion[self.ion]
        return a

    def denote(self, table, mult):
        c = self.count.value if self.count else 1
        return [(mult * c, self.atom(table))]

    def leading_count(self):
        return False

    def structure(self, table):
        return (self.count.value if self.count else 1, self.atom(table))


class Impl:
    """count element+"""
    def __init__(self, atoms, count=None):
        self.atoms, self.count = atoms, count

    def render(self):
        return (self.count.text if self.count else '') + ''.join(a.render() for a in self.atoms)

    def denote(self, table, mult):
        c = self.count.value if self.count else 1
        out = []
        for a in self.atoms:
            out += a.denote(table, mult * c)
        return out

    def leading_count(self):
        return self.count is not None


class Expl:
    """'(' formula ')' count"""
    def __init__(self, body, count=None, pad=('', '')):
        self.body, self.count, self.pad = body, count, pad

    def render(self):
        return '(' + self.pad[0] + self.body.render() + self.pad[1] + ')' + (self.count.text if self.count else '')

    def denote(self, table, mult):
        c = self.count.value if self.count else 1
        return self.body.denote(table, mult * c)

    def leading_count(self):
        return False


class Comp:
    """group (separator group)*"""
    def __init__(self, groups, seps=None):
        self.groups = groups
        self.seps = seps if seps is not None else [''] * (len(groups) - 1)
        for i, g in enumerate(groups[1:]):
            if g.leading_count() and self.seps[i] == '':
                self.seps[i] = ' '      # "H2" "3O" must not read as "H23O"
            if isinstance(groups[i], Impl) and groups[i].count is not None and isinstance(g, Impl) and self.seps[i] == '':
                self.seps[i] = ' '      # "3H2" "O" with no separator is textually one group "3H2O"

    def render(self):
        s = self.groups[0].render()
        for sep, g in zip(self.seps, self.groups[1:]):
            s += sep + g.render()
        return s

    def denote(self, table, mult=1):
        out = []
        for g in self.groups:
            out += g.denote(table, mult)
        return out


class Compound:
    def __init__(self, comp, density=None, suffix=''):
        self.comp, self.density, self.suffix = comp, density, suffix

    def render(self):
        return self.comp.render() + ('@' + self.density.text + self.suffix if self.density else '')

    def denote(self, table):
        return self.comp.denote(table, 1)


@contextlib.contextmanager
def printing(E):
    """While active, "%g" % count of a symbolic count prints its shadow value and registers the
    printed text as a placeholder for that same symbol, so that parsing the printed string with
    `parsing(E)` maps every literal back to the term it came from (concolic round trip)."""
    if not E.symbolic:
        yield
        return

    def hook(x):
        text = '%g' % x.shadow
        old = _PLACE.get(text)
        if old is not None and not old.t.eq(x.t):
            import z3
            if not z3.simplify(old.t - x.t).eq(z3.RealVal(0)):
                raise sym.HarnessError('two different symbolic counts print as %r' % text)
        _PLACE[text] = x
    prev = sym.FLOAT_HOOK
    sym.FLOAT_HOOK = hook
    try:
        yield
    finally:
        sym.FLOAT_HOOK = prev
