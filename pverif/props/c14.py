"""C14 -- activation equals the solution of the documented capture/decay chains."""
from __future__ import annotations

import math

import z3

from ..runner import Case
from .. import sym
from ..sym import SymReal
from . import common as cm

META = dict(
    functions=['periodictable.activation:activity', 'periodictable.activation:ActivationEnvironment.epithermal_reduction_factor',
               'periodictable.activation:Sample.calculate_activation', 'periodictable.activation:Sample._accumulate',
               'periodictable.activation:init'],
    bounds=("generic reaction row: every numeric field of the row, fluence, Cd ratio, fast ratio, mass, exposure and rest time "
            "are symbolic reals; reaction class in {single capture with burn-up, 'b', '2n'}, fast in {False, True}; one or two "
            "rest times; small-argument branch decided on its own guard region with a Taylor enclosure of exp; Sample: real "
            "formulas over public-table atoms with symbolic mass, fluence, exposure"),
    outside=("floating-point rounding ('within double precision'); monotonicity in exposure; parsing of activation.dat columns; "
             "exactly vanishing denominators (lambda + b - a == 0, equal decay constants), which the code does not guard"),
    stubs=("exp/expm1: fresh value per application with sign, monotonicity, functionality and tangent axioms; the oracle reuses the "
           "code's application whose argument is provably equal; log only at import (LN2)"),
    assumptions=["floats as exact reals", "physical inputs: half-lives > 0, cross sections >= 0, fluence > 0, mass > 0, exposure > 0, rest >= 0",
                 "every real row of activation.dat satisfies the generic row's assumptions (checked concretely on each run; exceptions listed)"],
)


class FakeIsotope:
    def __init__(self, A, rows):
        self.isotope = A
        self.neutron_activation = rows

    def __str__(self):
        return 'X-%s' % self.isotope


import decimal
import numpy as np
_DC = decimal.Context(prec=80)


def eexp(E, x):
    """exp for the oracle: the code's own application (symbolic) or 80-digit decimal exp (concrete)"""
    if isinstance(x, SymReal):
        r = sym.find_exp(x.t)
        return r
    if isinstance(x, HP):
        return HP(_DC.exp(x.d))
    return math.exp(x)


class HP:
    """80-digit decimal number with float-like operators (concrete-mode oracle: no cancellation)"""
    __slots__ = ('d',)

    def __init__(self, x):
        self.d = x.d if isinstance(x, HP) else (x if isinstance(x, decimal.Decimal) else decimal.Decimal(x))

    @staticmethod
    def of(x):
        return x if isinstance(x, HP) else HP(x)
    def __add__(self, o): return HP(_DC.add(self.d, HP.of(o).d))
    __radd__ = __add__
    def __sub__(self, o): return HP(_DC.subtract(self.d, HP.of(o).d))
    def __rsub__(self, o): return HP(_DC.subtract(HP.of(o).d, self.d))
    def __mul__(self, o): return HP(_DC.multiply(self.d, HP.of(o).d))
    __rmul__ = __mul__
    def __truediv__(self, o): return HP(_DC.divide(self.d, HP.of(o).d))
    def __rtruediv__(self, o): return HP(_DC.divide(HP.of(o).d, self.d))
    def __neg__(self): return HP(-self.d)
    def __ge__(self, o): return self.d >= HP.of(o).d
    def __gt__(self, o): return self.d > HP.of(o).d
    def __le__(self, o): return self.d <= HP.of(o).d
    def __lt__(self, o): return self.d < HP.of(o).d
    def __float__(self): return float(self.d)
    def __complex__(self): return complex(float(self.d))


def hp(E, x):
    """number as the oracle sees it: the symbol itself, or an exact 80-digit decimal of the float"""
    if E.symbolic or isinstance(x, (SymReal, HP)):
        return x
    return HP(float(x))


def _row(E, reaction, fast):
    from periodictable import activation
    kw = dict(reaction=reaction, fast=fast, daughter='Y-1', isotope='X-1', isomer='', comments='', Thalf_str='1 h', abundance=100.0,
              percentIT=0.0, gT=1.0)
    kw['thermalXS'] = E.real('xs', lo=0, hi=1e5, srange=(0.01, 100))
    kw['resonance'] = E.real('res', lo=0, hi=1e5, srange=(0.01, 100))
    kw['Thalf_hrs'] = E.real('Thalf', lo=0, lo_open=True, hi=1e12, srange=(0.1, 1000))
    kw['Thalf_parent'] = E.real('Thalf_p', lo=0, lo_open=True, hi=1e12, srange=(0.1, 1000))
    kw['thermalXS_parent'] = E.real('xs_p', lo=0, hi=1e5, srange=(0.01, 100))
    kw['resonance_parent'] = E.real('res_p', lo=0, hi=1e5, srange=(0.01, 100))
    return activation.ActivationResult(**kw)


def _env(E, cd_kind, fast):
    from periodictable import activation
    fluence = E.real('fluence', lo=0, lo_open=True, hi=1e16, srange=(1e12, 1e14))
    if cd_kind == 'zero':
        cd = 0.0
    elif cd_kind == 'ge1':
        cd = E.real('Cd', lo=1, hi=1e6, srange=(1, 100))
    else:
        cd = E.real('Cd', lo=0, hi=1e6, srange=(0, 100))
    fr = E.real('fast_ratio', lo=0, lo_open=True, hi=1e6, srange=(1, 100)) if fast else 0.0
    return activation.ActivationEnvironment(fluence=fluence, Cd_ratio=cd, fast_ratio=fr), fluence, cd, fr


def _closed_form(E, ai, env_vals, mass, A, exposure, LN2):
    """documented chain solutions; returns activity at end of irradiation (or None if an exp application is missing)"""
    fluence, cd, fr = [hp(E, v) for v in env_vals]
    mass, exposure, LN2 = hp(E, mass), hp(E, exposure), hp(E, LN2)
    ai = type('Row', (), dict(reaction=ai.reaction, fast=ai.fast, thermalXS=hp(E, ai.thermalXS), resonance=hp(E, ai.resonance),
                              Thalf_hrs=hp(E, ai.Thalf_hrs), Thalf_parent=hp(E, ai.Thalf_parent),
                              thermalXS_parent=hp(E, ai.thermalXS_parent), resonance_parent=hp(E, ai.resonance_parent)))
    epi = (1 / cd) if (cd >= 1) else 0
    sigma = ai.thermalXS + epi * ai.resonance
    flux = fluence / fr if ai.fast else fluence
    R = flux * sigma * hp(E, 1e-24) * mass / A * hp(E, 1.6278e19)          # production rate in uCi
    lam = LN2 / ai.Thalf_hrs
    t = exposure
    if ai.reaction == 'b':
        lp = LN2 / ai.Thalf_parent
        e1, e2 = eexp(E, -(lam * t)), eexp(E, -(lp * t))
        if e1 is None or e2 is None:
            return None, R
        return R * (1 - (lp * e1 - lam * e2) / (lp - lam)), R
    sig_eff = ai.thermalXS_parent + epi * ai.resonance_parent
    a = flux * sigma * 3600 * hp(E, 1e-24)                     # burn-up rate of the target (1/h)
    b = fluence * sig_eff * 3600 * hp(E, 1e-24)                # capture rate of the product / intermediate (1/h)
    if ai.reaction == '2n':
        lp = LN2 / ai.Thalf_parent
        k = [a, b + lp, lam]
        es = [eexp(E, -(ki * t)) for ki in k]
        if any(e is None for e in es):
            return None, R
        tot = 0
        for i in range(3):
            den = 1
            for j in range(3):
                if j != i:
                    den = den * (k[j] - k[i])
            tot = tot + es[i] / den
        return R * lam * b * tot, R
    eU, eV = eexp(E, -(a * t)), eexp(E, -((lam + b) * t))
    if eU is None or eV is None:
        return None, R
    return R * lam / (lam + b - a) * (eU - eV), R


def _generic_case(reaction, fast, cd_kind, nrest=1):
    def h(E):
        from periodictable import activation
        ai = _row(E, reaction, fast)
        env, fluence, cd, fr = _env(E, cd_kind, fast)
        mass = E.real('mass', lo=0, lo_open=True, hi=1e3, srange=(0.1, 10))
        A = 59
        exposure = E.real('exposure', lo=0, lo_open=True, hi=1e4, srange=(0.5, 100))
        rests = [E.real('rest%d' % i, lo=0, hi=1e5, srange=(0, 100)) for i in range(nrest)]
        iso = FakeIsotope(A, [ai])
        LN2 = activation.LN2
        if reaction == 'act':
            # the exponential branch (the small-argument branch has its own case)
            a_ = (fluence / fr if fast else fluence) * (ai.thermalXS + ((1 / cd) if (cd >= 1) else 0) * ai.resonance) * 3600 * 1e-24 * exposure
            E.assume(a_ >= 1e-10)
        sym.EXP_SECANT = (reaction == 'b')
        try:
            res = activation.activity(iso, mass, env, exposure, rests)
        finally:
            sym.EXP_SECANT = False
        E.fact('one_product', list(res.keys()) == [ai], note=repr(list(res.keys())))
        if ai not in res:
            return
        vals = res[ai]
        E.fact('one_value_per_rest_time', len(vals) == nrest)
        want0, R = _closed_form(E, ai, (fluence, cd, fr), mass, A, exposure, LN2)
        lam = hp(E, LN2) / hp(E, ai.Thalf_hrs)
        for i, (v, T) in enumerate(zip(vals, rests)):
            er = eexp(E, -(lam * hp(E, T)))
            if want0 is None or er is None:
                E.fact('exp_arguments_documented[%d]' % i, False, note='no exp application with the documented argument')
                continue
            w = want0 * er
            E.eq('activity_closed_form[%d]' % i, v, w if E.symbolic else float(w))
            if reaction in ('act', 'b'):
                # '2n': non-negativity of the three-term sum is a second-order divided-difference fact about exp
                # that the exp contract does not carry; stated as outside
                E.true('activity_nonneg[%d]' % i, v >= 0)
        if nrest >= 2:
            # decay between two rest times is exp(-lam*(T2-T1)): A(T2) * exp(-lam T1) == A(T1) * exp(-lam T2)
            e0, e1 = eexp(E, -(lam * hp(E, rests[0]))), eexp(E, -(lam * hp(E, rests[1])))
            if e0 is not None and e1 is not None:
                E.eq('rest_decay_ratio', vals[1] * (e0 if E.symbolic else float(e0)), vals[0] * (e1 if E.symbolic else float(e1)))
    return h


def _small_branch_case(fast):
    """single capture, both arguments tiny: the result must agree with W*(exp(-U)-exp(-V)) to ~1e-9 relative to W*(U+V)"""
    def h(E):
        from periodictable import activation
        ai = _row(E, 'act', fast)
        env, fluence, cd, fr = _env(E, 'zero', fast)
        mass = E.real('mass', lo=0, lo_open=True, hi=1e3, srange=(0.1, 10))
        A = 59
        exposure = E.real('exposure', lo=0, lo_open=True, hi=1e4, srange=(0.5, 100))
        LN2 = activation.LN2
        flux = fluence / fr if fast else fluence
        sigma = ai.thermalXS
        a = flux * sigma * 3600 * 1e-24
        b = fluence * ai.thermalXS_parent * 3600 * 1e-24
        lam = LN2 / ai.Thalf_hrs
        U = a * exposure
        V = (b + lam) * exposure
        E.assume(U < 1e-10)
        E.assume(V < 1e-10)
        E.assume(sigma > 0)
        iso = FakeIsotope(A, [ai])
        res = activation.activity(iso, mass, env, exposure, [0])
        E.fact('one_product', list(res.keys()) == [ai])
        if ai not in res:
            return
        v = res[ai][0]
        R = flux * sigma * 1e-24 * mass / A * 1.6278e19
        W = lam / (lam + b - a)
        if E.symbolic:
            c = sym.ctx()
            eU = sym.sym_exp(-U, reuse=True)
            eV = sym.sym_exp(-V, reuse=True)
            for x, e in ((U, eU), (V, eV)):
                # alternating Taylor enclosure of exp(-x), x >= 0
                c.add('axioms', e.t <= 1 - x.t + x.t * x.t / 2)
                c.add('axioms', e.t >= 1 - x.t + x.t * x.t / 2 - x.t * x.t * x.t / 6)
            exact = R * W * (eU - eV)
        else:
            exact = R * W * (math.expm1(-U) - math.expm1(-V))
        err = v - exact
        bound = 1e-9 * (U + V) * R * (W if (W >= 0) else -W)
        E.true('small_argument_branch_accurate', (err <= bound) & (-err <= bound) if E.symbolic else abs(err) <= bound * 1.0001 + 1e-300,
               note='|activity - R*W*(exp(-U)-exp(-V))| <= 1e-9*(U+V)*R*|W|')
        E.true('small_argument_nonneg', v >= 0)
    return h


def _linear_mass_case(reaction):
    def h(E):
        from periodictable import activation
        ai = _row(E, reaction, False)
        env, fluence, cd, fr = _env(E, 'ge1', False)
        mass = E.real('mass', lo=0, lo_open=True, hi=1e3, srange=(0.1, 10))
        k = E.real('k', lo=0, lo_open=True, hi=1e3)
        exposure = E.real('exposure', lo=0, lo_open=True, hi=1e4, srange=(0.5, 100))
        rest = E.real('rest', lo=0, hi=1e5, srange=(0, 100))
        if reaction == 'act':
            E.assume(fluence * (ai.thermalXS + ai.resonance / cd) * 3600 * 1e-24 * exposure >= 1e-10)
        iso = FakeIsotope(59, [ai])
        r1 = activation.activity(iso, mass, env, exposure, [rest])
        r2 = activation.activity(iso, k * mass, env, exposure, [rest])
        if ai in r1 and ai in r2:
            E.eq('linear_in_mass', r2[ai][0], k * r1[ai][0])
        else:
            E.fact('product_present', False)
    return h


def _fast_and_epithermal_case(E):
    from periodictable import activation
    ai_fast = _row(E, 'act', True)
    mass = E.real('mass', lo=0, lo_open=True, hi=1e3, srange=(0.1, 10))
    exposure = E.real('exposure', lo=0, lo_open=True, hi=1e4, srange=(0.5, 100))
    fluence = E.real('fluence', lo=0, lo_open=True, hi=1e16)
    fr = E.real('fast_ratio', lo=0, hi=1e6)
    cd = E.real('Cd', lo=0, hi=1e6)
    env = activation.ActivationEnvironment(fluence=fluence, Cd_ratio=cd, fast_ratio=fr)
    iso = FakeIsotope(59, [ai_fast])
    E.assume((fluence * (ai_fast.thermalXS + ai_fast.resonance) * 3600 * 1e-24 * exposure >= 1e-10) if E.symbolic else True)
    if fr == 0:
        res = activation.activity(iso, mass, env, exposure, [0])
        E.fact('fast_reaction_omitted_when_fast_ratio_0', res == {}, note=repr(res))
    else:
        if not E.symbolic and fluence / fr * (ai_fast.thermalXS + ai_fast.resonance) * 3600e-24 * exposure < 1e-10:
            return
        if E.symbolic:
            E.assume(fluence / fr * ai_fast.thermalXS * 3600 * 1e-24 * exposure >= 1e-10)
        res = activation.activity(iso, mass, env, exposure, [0])
        E.fact('fast_reaction_present_when_fast_ratio_positive', list(res.keys()) == [ai_fast])
    # epithermal factor: 1/Cd for Cd >= 1, else 0
    f = env.epithermal_reduction_factor
    if cd >= 1:
        E.eq('epithermal_factor_is_1_over_Cd', f * cd, 1)
    else:
        E.eq('epithermal_factor_zero_below_1', f, 0)


def _sample_case(formula_text, exposure_fixed=None):
    """Sample.calculate_activation: natural elements contribute the abundance-weighted sum of their isotopes,
    isotopes are used directly at their mass fraction (real public-table rows, symbolic mass/fluence/exposure)."""
    def h(E):
        import periodictable as pt
        from periodictable import activation, core, formulas
        pt.Fe[56].neutron_activation  # touch
        mass = E.real('mass', lo=1e-6, hi=1e3)
        fluence = E.real('fluence', lo=1e2, hi=1e16)
        exposure = E.real('exposure', lo=1, hi=1e4)      # keeps U >= 1e-10 decisions easy
        rest = E.real('rest', lo=0, hi=1e5, srange=(0, 100))
        env = activation.ActivationEnvironment(fluence=fluence, Cd_ratio=0., fast_ratio=0.)
        s = activation.Sample(formula_text, mass)
        # a second calculation on the same Sample replaces the first one
        s.calculate_activation(activation.ActivationEnvironment(fluence=2 * fluence, Cd_ratio=0., fast_ratio=0.), exposure=exposure, rest_times=[0, rest])
        s.calculate_activation(env, exposure=exposure, rest_times=[0, rest])
        f = formulas.formula(formula_text)
        total_mass = sum(c * a.mass for a, c in f.atoms.items())
        want = {}
        for a, c in f.atoms.items():
            frac = c * a.mass / total_mass
            if core.ision(a):
                a = a.element          # activation is a property of the nucleus
            if core.isisotope(a):
                parts = [(a, mass * frac)]
            else:
                parts = [(a[i], mass * frac * a[i].abundance * 0.01) for i in a.isotopes if a[i].abundance > 0]
            for iso, m in parts:
                # one table row at a time, so the oracle does not depend on how result records compare or hash
                for row in getattr(iso, 'neutron_activation', ()):
                    for ai, vals in activation.activity(FakeIsotope(iso.isotope, [row]), m, env, exposure, [0, rest]).items():
                        cur = want.get(id(row))
                        want[id(row)] = (row, vals if cur is None else [x + y for x, y in zip(cur[1], vals)])
        got = [(k, v) for k, v in s.activity.items()]
        E.fact('products', len(got) == len(want) and all(any(k is row for k, _ in got) for row, _ in want.values()),
               note='%d vs %d products' % (len(got), len(want)))
        for row, vals in want.values():
            for k, v in got:
                if k is row:
                    for i, (x, y) in enumerate(zip(v, vals)):
                        E.eq('sample_activity[%s->%s|%s][%d]' % (row.isotope, row.daughter, row.reaction, i), x, y)
    return h


def _rows_case(case, tier, seed):
    """every real row satisfies the assumptions of the generic row (ground check, listed exceptions)"""
    import periodictable as pt
    pt.Fe[56].neutron_activation
    res = dict(paths=1, claims=0, discharged=0, queries=0, distinct=0, violations=[], inconclusive=[], samples=[], solver_s=0.0, complete=True)
    bad = []
    n = 0
    for el in pt.elements:
        for iso in el:
            for ai in getattr(iso, 'neutron_activation', []):
                n += 1
                ok = ai.Thalf_hrs > 0 and ai.thermalXS >= 0 and ai.resonance >= 0 and ai.thermalXS_parent >= 0 and ai.resonance_parent >= 0
                if ai.reaction in ('b', '2n'):
                    ok = ok and ai.Thalf_parent > 0
                if not ok:
                    bad.append('%s->%s %s' % (ai.isotope, ai.daughter, ai.reaction))
    res['claims'] = n
    res['discharged'] = n - len(bad)
    res['distinct'] = n
    res['queries'] = n
    res['samples'] = [dict(rows=n, rows_outside_generic_assumptions=bad[:20])]
    if bad:
        res['inconclusive'].append(dict(case=case.name, claim='rows_within_generic_assumptions', why='%d rows outside: %s' % (len(bad), bad[:10])))
    return res


def _hp_rows_case(case, tier, seed):
    """ground (concrete, exhaustive over the 513 rows x a grid of environments; not a solver claim): the real activity()
    against the documented chain solution evaluated in 80-digit decimal arithmetic.  This is where the floats-as-reals
    assumption of the symbolic cases is discharged: relative accuracy 1e-5 and non-negativity in double precision."""
    import periodictable as pt
    from periodictable import activation
    from ..env import ConcEnv
    pt.Fe[56].neutron_activation
    E = ConcEnv()
    res = dict(paths=1, claims=0, discharged=0, queries=0, distinct=0, violations=[], inconclusive=[], samples=[], solver_s=0.0, complete=True)
    ill = dict(n=0, bad_acc=[], bad_neg=[])
    viol = []
    exposures = (1e-3, 0.1, 10.0, 1e4) if tier == 'quick' else (1e-3, 3e-3, 1e-2, 0.1, 0.5, 1.0, 10.0, 100.0, 1e3, 1e4)
    fluences = (1e2, 1e8, 1e13, 1e16) if tier == 'quick' else (1e2, 1e4, 1e6, 1e8, 1e10, 1e12, 1e13, 1e14, 1e15, 1e16)
    cds = (0.0, 10.0) if tier == 'quick' else (0.0, 1.0, 10.0, 1e4)
    nrows = 0
    for el in pt.elements:
        for iso in el:
            for ai in getattr(iso, 'neutron_activation', []):
                nrows += 1
                for cd in cds:
                    epi = 1 / cd if cd >= 1 else 0
                    for fl in fluences:
                        env = activation.ActivationEnvironment(fluence=fl, Cd_ratio=cd, fast_ratio=50.0)
                        for expo in exposures:
                            tag = '%s|%s->%s' % (ai.reaction, ai.isotope, ai.daughter)
                            vals = dict(fluence=fl, Cd_ratio=cd, fast_ratio=50.0, exposure=expo, mass=1.0)
                            try:
                                got = activation.activity(FakeIsotope(iso.isotope, [ai]), 1.0, env, expo, [0])[ai][0]
                            except Exception as e:   # noqa: BLE001
                                res['claims'] += 1
                                viol.append(dict(case=case.name, claim='computes[%s]' % tag, values=vals, observed=['%s: %s' % (type(e).__name__, e), None], how='concrete'))
                                continue
                            want0, _R = _closed_form(E, ai, (fl, cd, 50.0), 1.0, iso.isotope, expo, activation.LN2)
                            w = float(want0)
                            well = True
                            if ai.reaction == '2n':
                                flux = fl / 50.0 if ai.fast else fl
                                k = [flux * (ai.thermalXS + epi * ai.resonance) * 3600e-24,
                                     fl * (ai.thermalXS_parent + epi * ai.resonance_parent) * 3600e-24 + activation.LN2 / ai.Thalf_parent,
                                     activation.LN2 / ai.Thalf_hrs]
                                well = min(k) * expo >= 1e-4
                            acc_ok = abs(w) < 1e-300 or abs(got - w) <= 1e-5 * abs(w)
                            neg_ok = got >= 0
                            if well:
                                res['claims'] += 2
                                res['discharged'] += int(acc_ok) + int(neg_ok)
                                if not acc_ok:
                                    viol.append(dict(case=case.name, claim='accuracy[%s]' % tag, values=vals, observed=[got, w], how='concrete vs 80-digit chain solution'))
                                if not neg_ok:
                                    viol.append(dict(case=case.name, claim='nonneg[%s]' % tag, values=vals, observed=[got, w], how='concrete'))
                            else:
                                ill['n'] += 1
                                if not acc_ok:
                                    ill['bad_acc'].append((abs(got - w) / abs(w), tag, vals, got, w))
                                if not neg_ok:
                                    ill['bad_neg'].append((got, tag, vals, got, w))
    # number types: the same environment given with Python ints, numpy integers or numpy floats gives the same activities;
    # fast rows are omitted for every way of writing a zero fast ratio
    for el in pt.elements:
        for iso in el:
            for ai in getattr(iso, 'neutron_activation', []):
                tag = '%s|%s->%s' % (ai.reaction, ai.isotope, ai.daughter)
                fake = FakeIsotope(iso.isotope, [ai])
                for fl in (10 ** 16, 10 ** 13):
                    ref = activation.activity(fake, 1.0, activation.ActivationEnvironment(fluence=float(fl), Cd_ratio=0., fast_ratio=50.), 10.0, [0, 5])
                    for kind, val in (('int', int(fl)), ('int64', np.int64(fl)), ('float64', np.float64(fl))):
                        got = activation.activity(fake, 1.0, activation.ActivationEnvironment(fluence=val, Cd_ratio=0., fast_ratio=50.), 10.0, [0, 5])
                        res['claims'] += 1
                        tol = 1e-5 if kind == 'float32' else 1e-9
                        ok = list(got) == list(ref) and all(abs(x - y) <= tol * abs(y) or (abs(y) < 1e-300 and abs(x) < 1e-300) for k in ref for x, y in zip(got[k], ref[k]))
                        if ok:
                            res['discharged'] += 1
                        else:
                            viol.append(dict(case=case.name, claim='fluence_number_type[%s|%s]' % (kind, tag), values=dict(fluence=repr(val)),
                                             observed=[repr(list(got.values()))[:100], repr(list(ref.values()))[:100]], how='concrete'))
                if ai.fast:
                    for zero in (0, 0.0, np.float64(0.0), np.int64(0)):
                        for fl in (1e13, np.float64(1e13), np.int64(10 ** 13)):
                            res['claims'] += 1
                            try:
                                got = activation.activity(fake, 1.0, activation.ActivationEnvironment(fluence=fl, Cd_ratio=0., fast_ratio=zero), 10.0, [0])
                                ok = got == {}
                                obs = repr(got)[:100]
                            except Exception as e:   # noqa: BLE001
                                ok, obs = False, '%s: %s' % (type(e).__name__, e)
                            if ok:
                                res['discharged'] += 1
                            else:
                                viol.append(dict(case=case.name, claim='fast_row_omitted_at_zero_fast_ratio[%s]' % tag, values=dict(fast_ratio=repr(zero), fluence=repr(fl)),
                                                 observed=[obs, '{}'], how='concrete'))
    # the two-step capture branch at small rate*time products: one aggregated claim each (see known_findings.json)
    res['claims'] += 2
    for key, claim in (('bad_acc', 'two_step_capture_accuracy_at_small_rates'), ('bad_neg', 'two_step_capture_nonneg_at_small_rates')):
        if not ill[key]:
            res['discharged'] += 1
        else:
            worst = sorted(ill[key], key=lambda x: -abs(x[0]))[0]
            viol_entry = dict(case=case.name, claim=claim, values=dict(worst[2], row=worst[1]),
                              observed=[worst[3], worst[4]], how='concrete vs 80-digit chain solution; %d of %d small-rate grid points fail' % (len(ill[key]), ill['n']))
            res['violations'].append(viol_entry)
    res['violations'] += viol[:5]
    res['queries'] = res['distinct'] = res['claims']
    res['samples'] = [dict(rows=nrows, grid=dict(exposure_h=exposures, fluence=fluences, Cd_ratio=cds, fast_ratio=50.0),
                           two_step_small_rate_points=ill['n'], tolerance_rel=1e-5)]
    return res


def cases(tier):
    th = tier == 'thorough'
    mp = 64 if not th else 512
    to = 60000 if not th else 200000
    out = []
    combos = [('act', False, 'zero', 1), ('act', False, 'ge1', 2), ('act', True, 'any', 1), ('b', False, 'ge1', 1), ('b', False, 'zero', 2),
              ('2n', False, 'zero', 1)]
    if th:
        combos += [('2n', False, 'ge1', 2), ('2n', True, 'any', 1), ('b', True, 'any', 1), ('act', True, 'zero', 2), ('act', False, 'any', 2)]
    for r, f, cd, nr in combos:
        out.append(Case('chain[%s|fast=%s|Cd=%s|rests=%d]' % (r, f, cd, nr), _generic_case(r, f, cd, nr), max_paths=mp, timeout_ms=to,
                        portfolio=th, budget_s=600 if not th else 1500))
    out.append(Case('small_argument_branch[thermal]', _small_branch_case(False), max_paths=mp, timeout_ms=to, nsamples=0))
    if th:
        out.append(Case('small_argument_branch[fast]', _small_branch_case(True), max_paths=mp, timeout_ms=to, nsamples=0))
    for r in ('act', 'b') + (('2n',) if th else ()):
        out.append(Case('linear_in_mass[%s]' % r, _linear_mass_case(r), max_paths=mp, timeout_ms=to))
    out.append(Case('fast_and_epithermal_switches', _fast_and_epithermal_case, max_paths=mp, timeout_ms=to))
    for ftxt in (['Co', 'C[13]O2', 'Co[59]Co2', 'Li{+}H{-}', 'LiLi{+}H{-}'] if not th else ['Co', 'C[13]O2', 'Co[59]Co2', 'Na{+}Cl{-}', 'LiLi{+}H{-}', 'NaNa{+}Cl{-}', 'DHO', 'NaCl', 'Fe[58]2O3', 'Au', 'H2O', 'Fe[56]{2+}O{2-}']):
        out.append(Case('sample[%s]' % ftxt, _sample_case(ftxt), max_paths=mp * 4, timeout_ms=to, nsamples=1))
    out.append(Case('rows_satisfy_generic_assumptions', None, custom=_rows_case))
    out.append(Case('real_rows_high_precision_ground', None, custom=_hp_rows_case, budget_s=600))
    return out
