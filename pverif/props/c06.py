"""C06 -- mass, abundance and density of every nuclide are those of the embedded tables (partial)."""
from __future__ import annotations

import itertools

from ..runner import Case
from .. import sym
from ..sym import SymReal
from . import common as cm

META = dict(
    functions=['periodictable.mass:init', 'periodictable.util:parse_uncertainty', 'periodictable.density:density',
               'periodictable.density:number_density', 'periodictable.density:interatomic_distance', 'periodictable.density:init'],
    bounds=("(A) the real mass.init on a fresh private table with the isotopic-composition text replaced by synthetic texts of "
            "1-3 elements x 1-3 isotopes (incl. the last element of the text) whose abundance values are symbolic reals > 0; "
            "density / number_density / interatomic_distance with symbolic element density and masses; (C) parse_uncertainty "
            "notation on digit strings of bounded length (CrossHair) and on all three notations with symbolic integers"),
    outside=("the row-by-row agreement of the ~3000 embedded mass rows, the atomic-weight table and the density table with the "
             "served values (a finite sweep over concrete rows: no variable for a solver to range over); that the atomic weight "
             "equals the abundance-weighted isotope mass within the stated uncertainty (a data fact)"),
    stubs="mass.parse_uncertainty patched: placeholder token -> (symbol, 0); cube root: r*r*r == x",
    assumptions=["floats as exact reals", "abundance entries > 0", "element density > 0 or None (unknown)"],
)

_CNT = itertools.count()


def _fresh_table(tag):
    from periodictable import core
    import os
    return core.PeriodicTable('vsym-%s-%d-%d' % (tag, os.getpid(), next(_CNT)))


def _drop(T):
    from periodictable import core, formulas
    for k, v in list(core.PRIVATE_TABLES.items()):
        if v is T:
            del core.PRIVATE_TABLES[k]
    formulas._PARSER_CACHE.pop(T, None)


LAYOUTS = {
    'H,He,U': [(1, 'H', [1, 2]), (2, 'He', [3, 4]), (92, 'U', [234, 235, 238])],
    'Be': [(4, 'Be', [9])],
    'Fe,last=Pb': [(26, 'Fe', [54, 56, 57, 58]), (82, 'Pb', [204, 206, 207, 208])],
    'Li,B,C,last=N': [(3, 'Li', [6, 7]), (5, 'B', [10, 11]), (6, 'C', [12, 13]), (7, 'N', [14, 15])],
    'single_last=Au': [(8, 'O', [16, 17, 18]), (79, 'Au', [197])],
}


def _abundance_case(layout_name):
    def h(E):
        from periodictable import mass
        layout = LAYOUTS[layout_name]
        vals = {}
        place = {}
        lines = []
        for z, s, isos in layout:
            lines.append('%d\t%s\telement' % (z, s))
            for a in isos:
                tok = 'P%dx%d' % (z, a)
                v = E.real('ab_%s%d' % (s, a), lo=0, lo_open=True, hi=1)
                vals[(z, a)] = v
                place[tok] = v
                if E.symbolic:
                    lines.append('    %d\t%s\tnote' % (a, tok))
                else:
                    lines.append('    %d\t %.9f(5)\tnote' % (a, v))
                    vals[(z, a)] = float('%.9f' % v)
        text = '\n'.join(lines)
        real_pu = mass.parse_uncertainty
        real_text = mass.isotope_abundance

        def pu(s):
            if s in place:
                return place[s], 0
            return real_pu(s)
        T = _fresh_table('c06')
        try:
            mass.isotope_abundance = text
            if E.symbolic:
                mass.parse_uncertainty = pu
            mass.init(T)
        finally:
            mass.isotope_abundance = real_text
            mass.parse_uncertainty = real_pu
            _drop(T)
        for z, s, isos in layout:
            el = T[z]
            tot = sum(vals[(z, a)] for a in isos)
            got_sum = 0
            for a in isos:
                ab = el[a].abundance
                E.eq('abundance[%s-%d]' % (s, a), ab * tot, 100 * vals[(z, a)])
                got_sum = got_sum + ab
            E.eq('abundances_sum_to_100[%s]' % s, got_sum, 100)
            others = [i for i in el.isotopes if i not in isos]
            E.fact('unlisted_isotopes_zero[%s]' % s, all((not isinstance(el[i].abundance, SymReal)) and el[i].abundance == 0 for i in others))
        # an element that is not in the text at all
        E.fact('unlisted_element_zero', all(T.Ni[i].abundance == 0 for i in T.Ni.isotopes))
    return h


def _density_case(E):
    from periodictable import density as dens
    T = cm.private_table('c06d', neutron=False)
    el = T.Fe
    iso = T.Fe[56]
    ion = T.Fe.ion[2]
    isoion = T.Fe[56].ion[3]
    el._mass = E.real('m_el', lo=0.5, hi=300)
    iso._mass = E.real('m_iso', lo=0.5, hi=300)
    el._density = E.real('rho', lo=0.01, hi=25)
    E.eq('element_density', el.density, el._density)
    E.eq('isotope_density', iso.density * el.mass, el._density * iso.mass)
    # (the property fixes the density of isotopes only; ions are served their atom's density)
    n = el.number_density
    E.eq('number_density', n * el.mass, el._density * cm.N_A)
    E.eq('isotope_number_density', iso.number_density, n)
    d = el.interatomic_distance
    E.eq('n_d_cubed', n * d * d * d, 1e24)
    E.eq('isotope_interatomic_distance', iso.interatomic_distance, d)


def _unknown_density_case(E):
    """element density unknown => isotope / ion density unknown, not an error"""
    T = cm.private_table('c06u', neutron=False)
    el = T.Fe
    el._mass = E.real('m_el', lo=0.5, hi=300)
    T.Fe[56]._mass = E.real('m_iso', lo=0.5, hi=300)
    old = el._density
    el._density = None
    try:
        E.fact('element_density_none', el.density is None)
        E.fact('isotope_density_none', T.Fe[56].density is None, note='isotope density with unknown element density')
        E.fact('ion_density_none', T.Fe.ion[2].density is None and T.Fe[56].ion[2].density is None)
        E.fact('number_density_none', el.number_density is None and T.Fe[56].number_density is None)
        E.fact('interatomic_distance_none', el.interatomic_distance is None)
    finally:
        el._density = old
    # the same on the public table, for an element whose density really is unknown
    import periodictable as pt
    unknown = [e for e in pt.elements if e.density is None and e.isotopes][:3]
    for e in unknown:
        E.fact('public_isotope_density_none[%s]' % e.symbol, e[e.isotopes[0]].density is None)


CH_MOD = '''
from periodictable.util import parse_uncertainty


def _digits(s):
    return len(s) >= 1 and all(c in '0123456789' for c in s)


def value_unc(ip: str, fp: str, unc: str) -> bool:
    """
    pre: _digits(ip) and len(ip) <= 2 and (len(ip) == 1 or ip[0] != '0')
    pre: _digits(fp) and len(fp) <= 3
    pre: _digits(unc) and len(unc) <= len(fp)
    post: __return__
    """
    v, u = parse_uncertainty(ip + '.' + fp + '(' + unc + ')')
    want_v = int(ip) + int(fp) / 10 ** len(fp)
    want_u = int(unc) / 10 ** len(fp)
    return abs(v - want_v) <= 1e-12 * max(1.0, want_v) and abs(u - want_u) <= 1e-12


def nominal(ip: str, fp: str) -> bool:
    """
    pre: _digits(ip) and len(ip) <= 2 and (len(ip) == 1 or ip[0] != '0')
    pre: _digits(fp) and len(fp) <= 3
    post: __return__
    """
    v, u = parse_uncertainty('[' + ip + '.' + fp + ']')
    return abs(v - (int(ip) + int(fp) / 10 ** len(fp))) <= 1e-12 * max(1, int(ip)) and u == 0


def interval(a: int, b: int) -> bool:
    """
    pre: 0 <= a <= b <= 999
    post: __return__
    """
    v, u = parse_uncertainty('[%d.5,%d.5]' % (a, b))
    return abs(v - (a + b + 1) / 2) <= 1e-9 and abs(u - (b - a) / 12 ** 0.5) <= 1e-9


def plain(ip: str) -> bool:
    """
    pre: _digits(ip) and len(ip) <= 3 and (len(ip) == 1 or ip[0] != '0')
    post: __return__
    """
    return parse_uncertainty(ip) == (int(ip), 0) and parse_uncertainty('') == (None, None)
'''


def _notation_crosshair(case, tier, seed):
    from .. import ch
    import ast
    ns = {}
    exec(CH_MOD, ns)

    def rp(fn):
        def f(argtext):
            args = ast.literal_eval('(' + argtext + ',)')
            ok = ns[fn](*args)
            return (not ok), '%s%r = %r' % (fn, args, ok)
        return f
    return ch.crosshair_case(case.name, CH_MOD, {k: rp(k) for k in ('value_unc', 'nominal', 'interval', 'plain')},
                             timeout_s=45 if tier == 'quick' else 150)


def _pu(s):
    """independent reader of the three uncertainty notations (value only)"""
    s = s.strip()
    if s.startswith('['):
        parts = s[1:-1].split(',')
        return (float(parts[0]) + float(parts[1])) / 2 if len(parts) == 2 else float(parts[0])
    return float(s.split('(')[0])


def _pu_unc(s):
    """independent reader of the three notations (uncertainty only): trailing digits of value(unc) scale with the
    value's decimals, [nominal] has none, [low,high] is a rectangular distribution"""
    s = s.strip()
    if s.startswith('['):
        parts = s[1:-1].split(',')
        return (float(parts[1]) - float(parts[0])) / 12 ** 0.5 if len(parts) == 2 else 0.0
    if '(' not in s:
        return 0.0
    v, u = s.split('(')
    u = u.split(')')[0]
    if '.' in u or '.' not in v:
        return float(u)
    from fractions import Fraction
    return float(Fraction(int(u), 10 ** len(v.split('.')[1])))


def _table_sweep_case(case, tier, seed):
    """ground sweep (concrete, exhaustive over rows; not a solver claim): every nuclide of the public table and of a
    fresh private table serves the mass / abundance / density of its row in the embedded tables"""
    import periodictable as pt
    from periodictable import mass, density, core
    import re as _re
    res = dict(paths=1, claims=0, discharged=0, queries=0, distinct=0, violations=[], inconclusive=[], samples=[], solver_s=0.0, complete=True)
    T = _fresh_table('c06sweep')
    try:
        mass.init(T)
        density.init(T)
    finally:
        _drop(T)
    iso_mass, iso_unc, el_unc, abund_unc = {}, {}, {}, {}
    for line in mass.isotope_mass.split('\n'):
        iso, m, p, avg = line.split(',')
        z, sym_, a = iso.split('-')
        iso_mass[(int(z), int(a))] = _pu(m)
        iso_unc[(int(z), int(a))] = _pu_unc(m)
    el_mass = {}
    for line in mass.element_mass.split('\n'):
        w = line.split()
        if len(w) >= 4 and w[3] != '-':
            el_mass[int(w[0])] = _pu(w[3])
            el_unc[int(w[0])] = _pu_unc(w[3])
    abund = {}
    z = None
    for line in mass.isotope_abundance.split('\n'):
        if line[0] not in ' \t':
            z = int(line.split()[0])
            abund[z] = {}
        else:
            w = line.split()
            abund[z][int(w[0])] = _pu(w[1])
            abund_unc.setdefault(z, {})[int(w[0])] = _pu_unc(w[1])

    def close(x, y):
        return x is not None and y is not None and abs(x - y) <= 1e-12 * max(abs(y), 1e-300)

    def bad(name, got, want):
        if len(res['violations']) < 5:
            res['violations'].append(dict(case=case.name, claim=name, values={}, observed=[repr(got), repr(want)], how='concrete table sweep'))
    for tab in (pt.elements, T):
        tag = 'public' if tab is pt.elements else 'private'
        for el in tab:
            if el.number == 0:
                # the neutron: reachable by its own symbol and name (lower-case n is not nitrogen), mass of the embedded constant
                res['claims'] += 1
                from periodictable.constants import neutron_mass
                try:
                    ok0 = tab.symbol('n') is el and tab.name('neutron') is el and tab.isotope('1-n') is el[1] and tab.symbol('N').number == 7 and el.mass == neutron_mass
                    note = ''
                except Exception as e:   # noqa: BLE001
                    ok0, note = False, '%s: %s' % (type(e).__name__, e)
                if ok0:
                    res['discharged'] += 1
                else:
                    bad('lookup_by_symbol_and_name[n|%s]' % tag, note or 'another object', 'the neutron')
                continue
            if el.number in el_mass:
                res['claims'] += 1
                if el.mass == el_mass[el.number]:
                    res['discharged'] += 1
                else:
                    bad('element_mass[%s|%s]' % (el.symbol, tag), el.mass, el_mass[el.number])
                res['claims'] += 1
                if close(el._mass_unc, el_unc[el.number]):
                    res['discharged'] += 1
                else:
                    bad('element_mass_unc[%s|%s]' % (el.symbol, tag), el._mass_unc, el_unc[el.number])
            tot = sum(abund.get(el.number, {}).values())
            for a in el.isotopes:
                iso = el[a]
                res['claims'] += 2
                if (el.number, a) in iso_mass and iso.mass == iso_mass[(el.number, a)]:
                    res['discharged'] += 1
                else:
                    bad('isotope_mass[%s-%d|%s]' % (el.symbol, a, tag), iso.mass, iso_mass.get((el.number, a)))
                res['claims'] += 1
                if (el.number, a) in iso_unc and close(iso._mass_unc, iso_unc[(el.number, a)]):
                    res['discharged'] += 1
                else:
                    bad('isotope_mass_unc[%s-%d|%s]' % (el.symbol, a, tag), iso._mass_unc, iso_unc.get((el.number, a)))
                want = 100 * abund[el.number][a] / tot if a in abund.get(el.number, {}) else 0
                want_u = 100 * abund_unc[el.number][a] / tot if a in abund.get(el.number, {}) else 0
                res['claims'] += 1
                if close(iso._abundance_unc, want_u):
                    res['discharged'] += 1
                else:
                    bad('abundance_unc[%s-%d|%s]' % (el.symbol, a, tag), iso._abundance_unc, want_u)
                if abs(iso.abundance - want) <= 1e-12 * max(1.0, want):
                    res['discharged'] += 1
                else:
                    bad('abundance[%s-%d|%s]' % (el.symbol, a, tag), iso.abundance, want)
            if el.number in abund:
                res['claims'] += 1
                if abs(sum(el[a].abundance for a in el.isotopes) - 100) < 1e-9:
                    res['discharged'] += 1
                else:
                    bad('abundances_sum[%s|%s]' % (el.symbol, tag), sum(el[a].abundance for a in el.isotopes), 100)
                # atomic weight == abundance-weighted isotope mass within the stated uncertainties
                nat = [el[a] for a in el.isotopes if el[a].abundance > 0]
                w = sum(i.abundance / 100 * i.mass for i in nat)
                u = sum((i.abundance / 100 * i._mass_unc) ** 2 + (i._abundance_unc / 100 * i.mass) ** 2 for i in nat) ** 0.5
                res['claims'] += 1
                if abs(w - el.mass) <= el._mass_unc + u:
                    res['discharged'] += 1
                else:
                    bad('weighted_isotope_mass[%s|%s]' % (el.symbol, tag), w, (el.mass, el._mass_unc, u))
            res['claims'] += 1
            d = density.element_densities.get(el.symbol)
            d = d[0] if isinstance(d, tuple) else d
            ok = el.density == d
            for a in (el.isotopes if ok else ()):
                di = el[a].density
                if not ((di is None) if d is None else abs(di - d * el[a].mass / el.mass) <= 1e-13 * d):
                    ok = False
                    break
            if ok:
                res['discharged'] += 1
            else:
                bad('density[%s|%s]' % (el.symbol, tag), el.density, d)
            # n = rho N_A / m and n d^3 = 1e24, or both unknown (never an error), for the element and its isotopes
            from periodictable.constants import avogadro_number
            for atom in [el] + [el[a] for a in el.isotopes[:3]]:
                res['claims'] += 1
                try:
                    n_, d_ = atom.number_density, atom.interatomic_distance
                    if d is None:
                        ok2 = n_ is None and d_ is None
                    else:
                        ok2 = abs(n_ - atom.density * avogadro_number / atom.mass) <= 1e-12 * n_ and abs(n_ * d_ ** 3 - 1e24) <= 1e-9 * 1e24
                    note = (n_, d_)
                except Exception as e:   # noqa: BLE001
                    ok2, note = False, '%s: %s' % (type(e).__name__, e)
                if ok2:
                    res['discharged'] += 1
                else:
                    bad('number_density_and_distance[%s|%s]' % (atom, tag), note, 'n = rho N_A/m, n d^3 = 1e24 (or None, None)')
            # the row is reachable by the symbol and the name the tables use for it
            res['claims'] += 1
            try:
                ok3 = tab.symbol(el.symbol) is el and tab.name(el.name) is el and all(tab.isotope('%d-%s' % (a, el.symbol)) is el[a] for a in el.isotopes[:2])
                note = ''
            except Exception as e:   # noqa: BLE001
                ok3, note = False, '%s: %s' % (type(e).__name__, e)
            if ok3:
                res['discharged'] += 1
            else:
                bad('lookup_by_symbol_and_name[%s|%s]' % (el.symbol, tag), note or 'another object', 'the same element / isotope')
    res['queries'] = res['distinct'] = res['claims']
    res['samples'] = [dict(rows_checked=res['claims'], note='ground sweep, exhaustive over the embedded rows; not a solver claim')]
    return res


def cases(tier):
    th = tier == 'thorough'
    out = []
    for name in (['H,He,U', 'Be', 'Fe,last=Pb'] if not th else list(LAYOUTS)):
        out.append(Case('abundance[%s]' % name, _abundance_case(name), max_paths=16, timeout_ms=30000, nsamples=1, conc_rel=1e-6))
    out.append(Case('density_relations', _density_case, max_paths=16, timeout_ms=30000))
    out.append(Case('unknown_density', _unknown_density_case, max_paths=4))
    out.append(Case('embedded_tables_ground_sweep', None, custom=_table_sweep_case))
    out.append(Case('notation_crosshair', None, custom=_notation_crosshair, budget_s=700 if th else 230))
    return out
