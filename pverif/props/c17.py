"""C17 -- the composite SLD calculator equals the direct calculation on the weighted sum."""
from __future__ import annotations

import numpy as np

from ..runner import Case
from .. import sym
from . import common as cm

META = dict(
    functions=['periodictable.nsf:neutron_composite_sld', 'periodictable.nsf:_sum_piece',
               'periodictable.nsf:neutron_scattering', 'periodictable.nsf:_calculate_scattering',
               'periodictable.nsf:Neutron.scattering_by_wavelength'],
    bounds=("1-3 materials (4 thorough) incl. a repeated material and an energy-dependent atom (real table, symbolic "
            "wavelength); weights >= 0 symbolic (zero allowed), density >= 0, wavelength scalar / length-1 / length-2 "
            "(3 thorough); per-atom mass, b_c, sigma_s symbolic on a private table"),
    outside="floating-point rounding; more than 4 materials; vectors longer than 3",
    stubs="sqrt: r>=0 & r*r==x; np.maximum and abs: fork; np.interp: fork tree",
    assumptions=["floats as exact reals", "weights, density >= 0"],
)


def _case(mats, wl_kind, zero=None, same_name=False):
    """mats: list of lists of pool keys (one material each)"""
    def h(E):
        from periodictable import nsf, formulas
        keys = sorted(set(k for m in mats for k in m))
        T, atoms, data = cm.sym_pool(E, 'c17', keys, natural=False)
        A = dict(zip(keys, atoms))
        materials = []
        for mi, m in enumerate(mats):
            counts = [E.real('n%d_%s' % (mi, k), lo=0, lo_open=True, hi=1000) for k in m]
            materials.append(formulas.formula([(c, A[k]) for c, k in zip(counts, m)], name='sample' if same_name else None))
        ws = [E.real('w%d' % i, lo=0, hi=1000) for i in range(len(mats))]
        rho = E.real('rho', lo=0, hi=25)
        if zero == 'weights':
            for w in ws:
                E.assume(w == 0)
        elif zero == 'density':
            E.assume(rho == 0)
        if wl_kind == 'scalar':
            lams = [E.real('lam', lo=0.05, hi=50)]
            wl = lams[0]
        else:
            n = int(str(wl_kind).rstrip('tl'))
            lams = [E.real('lam%d' % i, lo=0.05, hi=50) for i in range(n)]
            wl = np.array(lams, dtype=object if E.symbolic else float)
            if str(wl_kind).endswith('t'):
                wl = tuple(lams)            # any sequence is a vector of wavelengths
            elif str(wl_kind).endswith('l'):
                wl = list(lams)
        warr = np.array(ws, dtype=object if E.symbolic else float)
        snap = cm.Snapshot(materials=materials, weights=warr, **({'wavelengths': wl} if isinstance(wl, np.ndarray) else {}))
        calc = nsf.neutron_composite_sld(materials, wavelength=wl)
        out = calc(warr, density=rho)
        snap.check(E, 'calculator')
        E.fact('three_outputs', len(out) == 3)
        # direct: neutron_sld of sum_i w_i * material_i at density rho
        total = formulas.Formula()
        for w, m in zip(ws, materials):
            total = total + w * m
        names = ['sld_re', 'sld_im', 'sld_inc']
        if zero == 'density':
            # the direct calculation at density 0 gives zeros as well
            dz = nsf.neutron_sld(total, density=rho, wavelength=lams[0])
            for nme, dv in zip(names, dz):
                E.eq('zero_density_direct.' + nme, dv, 0)
        if zero is not None:
            for nme, o in zip(names, out):
                if isinstance(o, np.ndarray):
                    for i in range(o.size):
                        E.eq('zero.%s[%d]' % (nme, i), o.flat[i], 0)
                else:
                    E.eq('zero.' + nme, o, 0)
            return
        E.assume(rho > 0)
        tot_w = sum(ws)
        E.assume(tot_w > 0)
        if wl_kind == 'scalar':
            d = nsf.neutron_sld(total, density=rho, wavelength=wl)
            for nme, o, dv in zip(names, out, d):
                E.fact('scalar_shape.' + nme, not isinstance(o, np.ndarray) or o.shape == ())
                E.eq('composite_vs_direct.' + nme, o, dv)
        else:
            for nme, o in zip(names, out):
                E.fact('vector_shape.' + nme, isinstance(o, np.ndarray) and o.shape == (len(lams),),
                       note='%s %r' % (type(o).__name__, getattr(o, 'shape', None)))
            for i, l in enumerate(lams):
                d = nsf.neutron_sld(total, density=rho, wavelength=l)
                for nme, o, dv in zip(names, out, d):
                    if isinstance(o, np.ndarray) and o.shape == (len(lams),):
                        E.eq('composite_vs_direct[%d].%s' % (i, nme), o[i], dv)
    return h


def _edep_case(wl_kind, real=None):
    """materials containing an energy-dependent atom.  Default: a private-table atom carrying a small
    energy table (3 nodes at 1, 2, 4 A with symbolic complex values), so that the interpolating branch
    of scattering_by_wavelength is the one the calculator precomputes.  real=(el, iso): a real table."""
    def h(E):
        from periodictable import nsf, formulas
        T, atoms, data = cm.sym_pool(E, 'c17e', ['X', 'Y', 'H'], natural=False)
        X, Y, H = atoms
        if real is None:
            nodes = np.array([1.0, 2.0, 4.0])
            vals = []
            for i in range(3):
                re = E.real('tab_re%d' % i, lo=-20, hi=20)
                im = E.real('tab_im%d' % i, lo=-5, hi=0)
                vals.append(sym.SymComplex(re, im) if E.symbolic else complex(re, im))
            X.neutron.nsf_table = (nodes, np.array(vals, dtype=object if E.symbolic else complex))
        else:
            import periodictable as pt
            src = getattr(pt, real[0])
            src = src if real[1] is None else src[real[1]]
            X.neutron.nsf_table = src.neutron.nsf_table
        n1 = E.real('n1', lo=0, lo_open=True, hi=1000)
        m1 = formulas.formula([(n1, X), (3, Y)])
        m2 = formulas.formula([(2, H), (1, Y)])
        ws = [E.real('w0', lo=0, lo_open=True, hi=1000, ne=1), E.real('w1', lo=0, lo_open=True, hi=1000, ne=1)]
        rho = E.real('rho', lo=0, lo_open=True, hi=25)
        if wl_kind == 'scalar':
            lams = [E.real('lam', lo=0.05, hi=50)]
            wl = lams[0]
        else:
            # one wavelength per table segment keeps the fork tree small
            segs = [(1.0, 2.0), (2.0, 4.0), (0.05, 1.0), (4.0, 50.0)]
            lams = [E.real('lam%d' % i, lo=segs[i][0], hi=segs[i][1]) for i in range(int(wl_kind))]
            wl = np.array(lams, dtype=object if E.symbolic else float)
        calc = nsf.neutron_composite_sld([m1, m2], wavelength=wl)
        out = calc(np.array(ws, dtype=object if E.symbolic else float), density=rho)
        total = ws[0] * m1 + ws[1] * m2
        names = ['sld_re', 'sld_im', 'sld_inc']
        for i, l in enumerate(lams):
            d = nsf.neutron_sld(total, density=rho, wavelength=l)
            for nme, o, dv in zip(names, out, d):
                ov = o[i] if isinstance(o, np.ndarray) and o.shape != () else o
                E.eq('edep_composite_vs_direct[%d].%s' % (i, nme), ov, dv)
    return h


def _real_materials_case(case, tier, seed):
    """ground (concrete; not a solver claim): every energy-dependent nuclide of the public table in a two-material
    composite, calculator vs direct calculation at a vector of wavelengths"""
    import periodictable as pt
    from periodictable import nsf, formulas, nsf_tables
    res = dict(paths=1, claims=0, discharged=0, queries=0, distinct=0, violations=[], inconclusive=[], samples=[], solver_s=0.0, complete=True)
    pt.H.neutron
    lams = [0.31, 1.0, 1.798, 4.75, 12.0]
    water = formulas.formula('D2O@1.1n')
    atoms = [getattr(pt, el) if iso is None else getattr(pt, el)[iso] for (el, iso) in nsf_tables.ENERGY_DEPENDENT_TABLES]
    atoms += [pt.Fe, pt.H[1], pt.Ni[58], pt.B[10]]
    for atom in atoms:
        m1 = formulas.formula([(1.5, atom), (3, pt.O)])
        ws, rho = [0.3, 2.25], 4.2
        total = ws[0] * m1 + ws[1] * water
        try:
            out = nsf.neutron_composite_sld([m1, water], wavelength=np.array(lams))(np.array(ws), density=rho)
            for i, l in enumerate(lams):
                d = nsf.neutron_sld(total, density=rho, wavelength=l)
                for nme, o, dv in zip(('sld_re', 'sld_im', 'sld_inc'), out, d):
                    res['claims'] += 1
                    if abs(o[i] - dv) <= 1e-9 * max(1.0, abs(dv)):
                        res['discharged'] += 1
                    elif len(res['violations']) < 5:
                        res['violations'].append(dict(case=case.name, claim='composite_vs_direct[%s].%s' % (atom, nme), values={'wavelength': l},
                                                      observed=[repr(o[i]), repr(dv)], how='concrete real-table material'))
        except Exception as e:   # noqa: BLE001
            res['claims'] += 1
            if len(res['violations']) < 5:
                res['violations'].append(dict(case=case.name, claim='composite_vs_direct[%s].no_exception' % atom, values={},
                                              observed=['%s: %s' % (type(e).__name__, e), None], how='concrete real-table material'))
    # weights and densities far from 1 (the SLD depends on the weights only through their ratios, and is linear in density)
    m1, m2 = formulas.formula('Na{+}Cl{-}'), formulas.formula('D2O@1.1n')
    for scale in (1e-12, 1e-6, 1e6, 1e12):
        for rho in (1e-12, 1e-3, 4.2):
            ws = [3 * scale, 1 * scale]
            try:
                out = nsf.neutron_composite_sld([m1, m2], wavelength=1.8)(np.array(ws), density=rho)
                d = nsf.neutron_sld(ws[0] * m1 + ws[1] * m2, density=rho, wavelength=1.8)
                ref = nsf.neutron_sld(3 * m1 + 1 * m2, density=1.0, wavelength=1.8)
                for nme, o, dv, rv in zip(('sld_re', 'sld_im', 'sld_inc'), out, d, ref):
                    res['claims'] += 1
                    if abs(o - dv) <= 1e-9 * abs(rv * rho) and abs(o - rv * rho) <= 1e-9 * abs(rv * rho):
                        res['discharged'] += 1
                    elif len(res['violations']) < 5:
                        res['violations'].append(dict(case=case.name, claim='composite_vs_direct_extreme.%s' % nme, values={'weight_scale': scale, 'density': rho},
                                                      observed=[repr((float(o), float(dv))), repr(float(rv * rho))], how='concrete'))
            except Exception as e:   # noqa: BLE001
                res['claims'] += 1
                if len(res['violations']) < 5:
                    res['violations'].append(dict(case=case.name, claim='composite_vs_direct_extreme.no_exception', values={'weight_scale': scale, 'density': rho},
                                                  observed=['%s: %s' % (type(e).__name__, e), None], how='concrete'))
    res['queries'] = res['distinct'] = res['claims']
    res['samples'] = [dict(materials=len(atoms), wavelengths=lams)]
    return res


def cases(tier):
    th = tier == 'thorough'
    mp = 128 if not th else 1024
    to = 30000 if not th else 120000
    out = []
    specs = [([['X', 'Y']], 'scalar'), ([['X', 'Y'], ['D', 'Y']], 'scalar'), ([['X'], ['Yi', 'H'], ['X']], '2'),
             ([['Xq', 'Y'], ['D']], '1'), ([['X', 'Y'], ['D']], '2t'), ([['X', 'Y'], ['D', 'H']], '1t'), ([['X'], ['D']], '2l')]
    if th:
        specs += [([['X', 'Y'], ['D', 'Y'], ['Z'], ['X', 'Y']], 'scalar'), ([['X', 'Y'], ['D', 'Y']], '3'),
                  ([['Xiq', 'Yq'], ['H', 'H1', 'D'], ['Z']], '2')]
    for mats, wk in specs:
        nm = '|'.join('+'.join(m) for m in mats)
        out.append(Case('composite[%s|wl=%s]' % (nm, wk), _case(mats, wk), max_paths=mp, timeout_ms=to, portfolio=th))
    out.append(Case('composite[X+Y|D+H|wl=scalar|all named alike]', _case([['X', 'Y'], ['D', 'H']], 'scalar', same_name=True), max_paths=mp, timeout_ms=to, portfolio=th))
    out.append(Case('zero_weights[X+Y|scalar]', _case([['X', 'Y']], 'scalar', zero='weights'), max_paths=mp, timeout_ms=to))
    out.append(Case('zero_weights[X+Y|2]', _case([['X', 'Y']], '2', zero='weights'), max_paths=mp, timeout_ms=to))
    out.append(Case('zero_weights[X+Y|D|scalar]', _case([['X', 'Y'], ['D']], 'scalar', zero='weights'), max_paths=mp, timeout_ms=to))
    out.append(Case('zero_density[X+Y|D|scalar]', _case([['X', 'Y'], ['D']], 'scalar', zero='density'), max_paths=mp, timeout_ms=to))
    out.append(Case('zero_weights[X+Y|D|2]', _case([['X', 'Y'], ['D']], '2', zero='weights'), max_paths=mp, timeout_ms=to))
    out.append(Case('zero_density[X+Y|D|2]', _case([['X', 'Y'], ['D']], '2', zero='density'), max_paths=mp, timeout_ms=to))
    out.append(Case('real_table_materials_ground', None, custom=_real_materials_case))
    out.append(Case('edep[synthetic-3-node|wl=scalar]', _edep_case('scalar'), max_paths=mp * 4, timeout_ms=to, nsamples=3))
    if th:
        # (a 2-vector of wavelengths over the interpolating branch multiplies the fork tree beyond a 25-minute budget;
        #  vectors are covered on the plain branch, the interpolating branch with scalars)
        out.append(Case('edep[real Dy-164 table|wl=scalar]', _edep_case('scalar', real=('Dy', 164)), max_paths=4096,
                        timeout_ms=to, nsamples=3, budget_s=1400))
    return out
