"""C16 -- D2O contrast matching agrees with direct substitution of labile hydrogen."""
from __future__ import annotations

from ..runner import Case
from .. import sym
from . import common as cm

META = dict(
    functions=['periodictable.nsf:D2O_sld', 'periodictable.nsf:D2O_match', 'periodictable.nsf:_D2O_slds', 'periodictable.nsf:mix_values',
               'periodictable.formulas:_isotope_substitution', 'periodictable.nsf:neutron_scattering',
               'periodictable.fasta:Molecule.__init__', 'periodictable.fasta:Molecule.D2Osld', 'periodictable.fasta:D2Omatch'],
    bounds=("compounds with 0-2 labile-hydrogen entries (H[1]) among 1-3 other atoms incl. non-labile H and D; counts, density or "
            "natural density, D2O fraction, volume fraction, wavelength and the per-atom data of H, H[1], D, O and the other atoms "
            "symbolic (private table passed with table=); fasta.Molecule on the public table with symbolic counts and cell volume"),
    outside="incoherent SLD (excluded by the property); floating-point rounding",
    stubs="sqrt (incoherent part only, unused by the claims); abs by forking",
    assumptions=["floats as exact reals", "Im b_c <= 0", "solvent: H2O / D2O at natural density 0.9982 with equal molar volume"],
)


def _setup(E, keys):
    T, atoms, data = cm.sym_pool(E, 'c16', list(dict.fromkeys(list(keys) + ['H', 'H1', 'D', 'Y'])), natural=True)
    P = cm.pool(T)
    data = {k: cm.atom_data(P[k]) for k in set(list(keys) + ['H', 'H1', 'D', 'Y'])}
    return T, P, data


def _solvent_slds(data, lam):
    mH2O = 2 * data['H'].mass + data['Y'].mass
    mD2O = 2 * data['D'].mass + data['Y'].mass
    oH = cm.neutron_oracle([(2, 'H'), (1, 'Y')], data, 0.9982, lam)
    oD = cm.neutron_oracle([(2, 'D'), (1, 'Y')], data, 0.9982 * mD2O / mH2O, lam)
    return oH, oD


def _substituted(E, keys, counts, data, rho, lam, d):
    """oracle: portion d of H[1] -> D, the rest -> H, at unchanged cell volume (density scales with mass)"""
    pairs = []
    m_old = 0
    m_new = 0
    for k, c in zip(keys, counts):
        m_old = m_old + c * data[k].mass
        if k == 'H1':
            pairs += [(c * d, 'D'), (c * (1 - d), 'H')]
            m_new = m_new + c * d * data['D'].mass + c * (1 - d) * data['H'].mass
        else:
            pairs.append((c, k))
            m_new = m_new + c * data[k].mass
    return cm.neutron_oracle(pairs, data, rho * m_new / m_old, lam)


def _sld_case(keys, dens_kind='density', with_replace=False):
    def h(E):
        from periodictable import nsf, formulas
        T, P, data = _setup(E, keys)
        counts = [E.real('c_%d%s' % (i, k), lo=0, lo_open=True, hi=1000) for i, k in enumerate(keys)]
        rho = E.real('rho', lo=0, lo_open=True, hi=25)
        lam = E.real('lam', lo=0.05, hi=50)
        d = E.real('d', lo=0, hi=1)
        v = E.real('v', lo=0, hi=1)
        mol = formulas.formula([(c, P[k]) for c, k in zip(counts, keys)])
        kw = dict(wavelength=lam, table=T)
        if dens_kind == 'density':
            kw['density'] = rho
            dens = rho
        else:
            kw['natural_density'] = rho
            # natural density -> density at unchanged cell volume (independent of the library's own conversion)
            from .c12 import natural_counterpart_mass
            from .c02 import oracle_mass
            dens = rho * sum(c * oracle_mass(P[k]) for c, k in zip(counts, keys)) / sum(c * natural_counterpart_mass(P[k]) for c, k in zip(counts, keys))
        oH, oD = _solvent_slds(data, lam)
        osub = _substituted(E, keys, counts, data, dens, lam, d)
        # v = 1: the compound with a fraction d of labile H replaced by D
        snap = cm.Snapshot(compound=mol)
        s1 = nsf.D2O_sld(mol, volume_fraction=1, D2O_fraction=d, **kw)
        snap.check(E, 'D2O_sld')
        E.eq('solute.sld_re', s1[0], osub['rho_re'])
        E.eq('solute.sld_im', s1[1], osub['rho_im'])
        # v = 0: the solvent mixture
        s0 = nsf.D2O_sld(mol, volume_fraction=0, D2O_fraction=d, **kw)
        E.eq('solvent.sld_re', s0[0], d * oD['rho_re'] + (1 - d) * oH['rho_re'])
        E.eq('solvent.sld_im', s0[1], d * oD['rho_im'] + (1 - d) * oH['rho_im'])
        # in between: linear in the volume fraction
        sv = nsf.D2O_sld(mol, volume_fraction=v, D2O_fraction=d, **kw)
        E.eq('linear_in_v.sld_re', sv[0], v * s1[0] + (1 - v) * s0[0])
        E.eq('linear_in_v.sld_im', sv[1], v * s1[1] + (1 - v) * s0[1])
        # a Formula object that carries its own density: the density keyword given in the call decides
        own = formulas.formula(mol, density=E.real('rho_own', lo=0, lo_open=True, hi=25))
        s1o = nsf.D2O_sld(own, volume_fraction=1, D2O_fraction=d, **kw)
        E.eq('formula_object_with_own_density.sld_re', s1o[0], s1[0])
        E.eq('formula_object_with_own_density.sld_im', s1o[1], s1[1])
        if with_replace:
            # the same through the real replace(): direct calculation on the substituted formula
            g0 = formulas.formula(mol, density=dens)
            g = g0.replace(P['H1'], P['D'], portion=d).replace(P['H1'], P['H'])
            direct = nsf.neutron_sld(g, wavelength=lam)
            E.eq('direct_substitution.sld_re', s1[0], direct[0])
            E.eq('direct_substitution.sld_im', s1[1], direct[1])
    return h


def _edep_wavelength_case(E):
    """a compound with an energy-dependent atom (3-node table of symbolic values on a private-table atom):
    the wavelength keyword reaches the SLD and the match point"""
    import numpy as np
    from periodictable import nsf, formulas
    keys = ['X', 'H1']
    T, P, data = _setup(E, keys)
    X = P['X']
    vals = []
    for i in range(3):
        re = E.real('tab_re%d' % i, lo=-20, hi=20)
        im = E.real('tab_im%d' % i, lo=-5, hi=0)
        vals.append(sym.SymComplex(re, im) if E.symbolic else complex(re, im))
    nodes = [1.0, 2.0, 4.0]
    X.neutron.nsf_table = (np.array(nodes), np.array(vals, dtype=object if E.symbolic else complex))
    try:
        counts = [E.real('c_%d%s' % (i, k), lo=0, lo_open=True, hi=1000) for i, k in enumerate(keys)]
        rho = E.real('rho', lo=0, lo_open=True, hi=25)
        lam = E.real('lam', lo=2.0, lo_open=True, hi=4.0, hi_open=True)      # inside the second table segment
        d = E.real('d', lo=0, hi=1)
        mol = formulas.formula([(c, P[k]) for c, k in zip(counts, keys)])
        s1 = nsf.D2O_sld(mol, volume_fraction=1, D2O_fraction=d, wavelength=lam, table=T, density=rho)
        # oracle: b_c of X on the chord between nodes 2 and 4
        t = (lam - 2.0) / 2.0
        bX = vals[1] + (vals[2] - vals[1]) * t
        dat = dict(data)
        dat['X'] = cm.AtomData(data['X'].mass, bX, 0)
        osub = _substituted(E, keys, counts, dat, rho, lam, d)
        E.eq('edep_solute.sld_re', s1[0], osub['rho_re'])
        E.eq('edep_solute.sld_im', s1[1], osub['rho_im'])
        v1 = E.real('v1', lo=0, hi=1)
        dstar, sld_star = nsf.D2O_match(mol, wavelength=lam, table=T, density=rho)
        a = nsf.D2O_sld(mol, volume_fraction=v1, D2O_fraction=dstar, wavelength=lam, table=T, density=rho)
        E.eq('edep_match_point.reported_sld', a[0], sld_star)
    finally:
        X.neutron.nsf_table = None


def _match_case(keys, characterise=False):
    def h(E):
        from periodictable import nsf, formulas
        T, P, data = _setup(E, keys)
        counts = [E.real('c_%d%s' % (i, k), lo=0, lo_open=True, hi=1000) for i, k in enumerate(keys)]
        rho = E.real('rho', lo=0, lo_open=True, hi=25)
        lam = E.real('lam', lo=0.05, hi=50)
        v1 = E.real('v1', lo=0, hi=1)
        v2 = E.real('v2', lo=0, hi=1)
        mol = formulas.formula([(c, P[k]) for c, k in zip(counts, keys)])
        kw = dict(wavelength=lam, table=T, density=rho)
        dstar, sld_star = nsf.D2O_match(mol, **kw)
        a = nsf.D2O_sld(mol, volume_fraction=v1, D2O_fraction=dstar, **kw)
        b = nsf.D2O_sld(mol, volume_fraction=v2, D2O_fraction=dstar, **kw)
        E.eq('match_point.independent_of_volume_fraction', a[0], b[0])
        E.eq('match_point.reported_sld', a[0], sld_star)
        if not characterise:
            return
        # characterisation: at d*, solute sld == solvent sld
        oH, oD = _solvent_slds(data, lam)
        osub = _substituted(E, keys, counts, data, rho, lam, dstar)
        E.eq('match_point.solute_equals_solvent', osub['rho_re'], dstar * oD['rho_re'] + (1 - dstar) * oH['rho_re'])
    return h


def _no_labile_case(E):
    from periodictable import nsf, formulas
    keys = ['X', 'H', 'D', 'Y']
    T, P, data = _setup(E, keys)
    counts = [E.real('c_%d%s' % (i, k), lo=0, lo_open=True, hi=1000) for i, k in enumerate(keys)]
    rho = E.real('rho', lo=0, lo_open=True, hi=25)
    lam = E.real('lam', lo=0.05, hi=50)
    d1 = E.real('d1', lo=0, hi=1)
    d2 = E.real('d2', lo=0, hi=1)
    mol = formulas.formula([(c, P[k]) for c, k in zip(counts, keys)])
    kw = dict(wavelength=lam, table=T, density=rho)
    a = nsf.D2O_sld(mol, volume_fraction=1, D2O_fraction=d1, **kw)
    b = nsf.D2O_sld(mol, volume_fraction=1, D2O_fraction=d2, **kw)
    E.eq('no_labile.independent_of_d.re', a[0], b[0])
    E.eq('no_labile.independent_of_d.im', a[1], b[1])
    direct = nsf.neutron_sld(mol, density=rho, wavelength=lam)
    E.eq('no_labile.equals_plain_sld', a[0], direct[0])


def _molecule_case(E):
    """fasta.Molecule reports the same match point (as a percentage) and SLDs as nsf.D2O_match / D2O_sld"""
    from periodictable import nsf, fasta, formulas
    import periodictable as pt
    c = [E.real('c%d' % i, lo=0, lo_open=True, hi=1000) for i in range(4)]
    vol = E.real('cell_volume', lo=10, hi=1e5)
    st = [(c[0], pt.C), (c[1], pt.H), (c[2], pt.H[1]), (c[3], pt.O), (1, pt.N)]
    m = fasta.Molecule('x', formulas.formula(st), cell_volume=vol)
    lab = m.labile_formula
    dm, sld_m = nsf.D2O_match(lab)
    E.eq('molecule.D2Omatch_is_percentage', m.D2Omatch, 100 * dm)
    d = E.real('d', lo=0, hi=1)
    v = E.real('v', lo=0, hi=1)
    E.eq('molecule.D2Osld', m.D2Osld(volume_fraction=v, D2O_fraction=d), nsf.D2O_sld(lab, volume_fraction=v, D2O_fraction=d)[0])
    E.eq('molecule.sld', m.sld, nsf.neutron_sld(lab.replace(pt.H[1], pt.H))[0])
    E.eq('molecule.Dsld', m.Dsld, nsf.neutron_sld(lab.replace(pt.H[1], pt.D))[0])
    # density = mass / cell volume
    from periodictable.constants import avogadro_number
    E.eq('molecule.density', lab.density * vol * avogadro_number, lab.mass * 1e24)


def _real_materials_case(case, tier, seed):
    """ground (concrete; not a solver claim): real compounds with labile hydrogen, some with an energy-dependent atom,
    scalar and vector wavelengths: at the reported match fraction the real SLD does not depend on the volume fraction,
    equals the reported SLD, and the vector call agrees entry by entry with scalar calls"""
    import numpy as np
    from periodictable import nsf, formulas
    res = dict(paths=1, claims=0, discharged=0, queries=0, distinct=0, violations=[], inconclusive=[], samples=[], solver_s=0.0, complete=True)
    mats = ['NaOH[1]@2.13n', 'C3H4H[1]3NO2@1.29n', 'Gd(C2H3O2)3(H[1]2O)4@1.61', 'Sm(OH[1])3@4.5', 'Eu[151]Cl3(H[1]2O)6@4.9', 'Cd[113](OH[1])2@4.8',
            'B(OH[1])3@1.435n']
    lams = [0.5, 1.0, 1.798, 4.75, 9.0]

    def check(name, ok, vals, obs):
        res['claims'] += 1
        if ok:
            res['discharged'] += 1
        elif len(res['violations']) < 5:
            res['violations'].append(dict(case=case.name, claim=name, values=vals, observed=obs, how='concrete'))
    for m in mats:
        f = formulas.formula(m)
        dv, sv = nsf.D2O_match(f, wavelength=np.array(lams))
        # (a wavelength-independent answer may come back as a scalar: it is compared as a constant vector)
        dv, sv = np.broadcast_to(dv, (len(lams),)), np.broadcast_to(sv, (len(lams),))
        for i, l in enumerate(lams):
            d1, s1 = nsf.D2O_match(f, wavelength=l)
            check('match_vector_entry[%s]' % m, abs(dv[i] - d1) <= 1e-9 * max(1.0, abs(d1)) and abs(sv[i] - s1) <= 1e-9 * max(1.0, abs(s1)),
                  {'wavelength': l}, [repr((float(dv[i]), float(sv[i]))), repr((float(d1), float(s1)))])
            slds = [nsf.D2O_sld(f, volume_fraction=v, D2O_fraction=d1, wavelength=l)[0] for v in (0.0, 0.35, 1.0)]
            check('match_point_independent_of_volume_fraction[%s]' % m, max(slds) - min(slds) <= 1e-9 * max(1.0, abs(s1)) and abs(slds[0] - s1) <= 1e-9 * max(1.0, abs(s1)),
                  {'wavelength': l, 'D2O_fraction': float(d1)}, [repr([float(x) for x in slds]), repr(float(s1))])
    # vectors of D2O fractions or volume fractions: entry i is the scalar call with entry i (lengths 1, 3 and 4)
    f = formulas.formula('C3H4H[1]3NO2@1.29n')
    for fr in ([0.3], [0.0, 0.5, 1.0], [0.0, 0.25, 0.5, 1.0]):
        for which in ('D2O_fraction', 'volume_fraction'):
            kw = {'D2O_fraction': 0.2, 'volume_fraction': 0.4}
            try:
                out = nsf.D2O_sld(f, wavelength=2.0, **dict(kw, **{which: np.array(fr)}))
                ok = True
                for i, x in enumerate(fr):
                    sc = nsf.D2O_sld(f, wavelength=2.0, **dict(kw, **{which: x}))
                    ok = ok and all(np.shape(o) == (len(fr),) and abs(o[i] - s_) <= 1e-9 * max(1.0, abs(s_)) for o, s_ in zip(out[:2], sc[:2]))
                obs = repr([np.asarray(o).tolist() for o in out[:2]])[:160]
            except Exception as e:   # noqa: BLE001
                ok, obs = False, '%s: %s' % (type(e).__name__, e)
            check('vector_of_fractions[%s|n=%d]' % (which, len(fr)), ok, {which: fr}, [obs, 'entry-wise equal to scalar calls'])
    res['queries'] = res['distinct'] = res['claims']
    res['samples'] = [dict(materials=mats, wavelengths=lams)]
    return res


def cases(tier):
    th = tier == 'thorough'
    mp = 64 if not th else 512
    to = 60000 if not th else 240000
    out = []
    ks = [('X', 'H1'), ('X', 'H', 'H1', 'Y')]
    if th:
        ks += [('H1',), ('X', 'H1', 'D', 'H1'), ('Xq', 'H1', 'Y', 'H')]
    for k in ks:
        out.append(Case('d2o_sld[%s|density]' % '+'.join(k), _sld_case(k), max_paths=mp, timeout_ms=to, portfolio=th, mode={'max': 'ite'}, budget_s=600 if not th else 1500))
    out.append(Case('d2o_sld[X+H1+Y|natural_density]', _sld_case(('X', 'H1', 'Y'), 'natural_density'), max_paths=mp, timeout_ms=to, portfolio=th, mode={'max': 'ite'},
                    budget_s=600 if not th else 1500))
    for k in [('X', 'H1')] + ([('X', 'H', 'H1', 'Y')] if th else []):
        out.append(Case('d2o_match[%s]' % '+'.join(k), _match_case(k, th), max_paths=mp, timeout_ms=to, portfolio=th, mode={'max': 'ite'}, budget_s=600 if not th else 1500))
    if th:
        out.append(Case('d2o_sld_via_replace[X+H1]', _sld_case(('X', 'H1'), 'density', True), max_paths=mp, timeout_ms=to, portfolio=th,
                        mode={'max': 'ite'}, budget_s=1500))
    out.append(Case('d2o_sld_energy_dependent_atom', _edep_wavelength_case, max_paths=mp, timeout_ms=to, mode={'max': 'ite'}, budget_s=600, portfolio=th))
    out.append(Case('real_materials_match_point_ground', None, custom=_real_materials_case))
    out.append(Case('no_labile_hydrogen', _no_labile_case, max_paths=mp, timeout_ms=to, mode={'max': 'ite'}))
    out.append(Case('fasta_molecule', _molecule_case, max_paths=mp, timeout_ms=to, budget_s=600, mode={'max': 'ite'}))
    return out
