"""C12 -- density, natural density, isotope substitution and cell volume are consistent."""
from __future__ import annotations

import math

import numpy as np

from ..runner import Case
from .. import sym, symparse as sp
from . import common as cm
from .c02 import oracle_mass

META = dict(
    functions=['periodictable.formulas:Formula.natural_mass_ratio', 'periodictable.formulas:Formula.natural_density',
               'periodictable.formulas:Formula.__init__', 'periodictable.formulas:_isotope_substitution',
               'periodictable.formulas:Formula.replace', 'periodictable.formulas:Formula.volume', 'periodictable.util:cell_volume',
               'periodictable.density:density'],
    bounds=("formulas of 1-4 atoms over {element, isotope, D, ion, isotope ion} with symbolic counts and atom masses (private "
            "table); density symbolic > 0; substitution portion symbolic in [0,1] (fork at 1), source present/absent, target "
            "present/absent; covalent radii and packing factor symbolic; all 2^5 present/absent lattice-parameter combinations"),
    outside="floating-point rounding; the numeric values of cos (only |cos| <= 1 and functionality are used)",
    stubs="sqrt: r>=0 & r*r==x; cos(radians(a)): fresh c in [-1,1], functional in a; formulas.float/int patched for '@' tag literals",
    assumptions=["floats as exact reals", "natural counterpart: isotope -> its element, ion charges kept (ion mass = base mass - q*m_e)",
                 "valid cell: the expression under the square root is >= 0"],
)


def natural_counterpart_mass(atom):
    from periodictable.constants import electron_mass
    b = cm.base_of(atom)
    nat = b.element if hasattr(b, 'isotope') else b
    return nat.mass - getattr(atom, 'charge', 0) * electron_mass


def _formula(E, keys, tag='c12', density=True):
    from periodictable import formulas
    T, atoms, _ = cm.sym_pool(E, tag, keys, neutron=False, natural=True, density=True)
    counts = [E.real('c_' + k, lo=0, lo_open=True, hi=1000) for k in keys]
    return T, atoms, counts


def _ratio_case(keys):
    def h(E):
        from periodictable import formulas
        T, atoms, counts = _formula(E, keys)
        st = list(zip(counts, atoms))
        nat = sum(c * natural_counterpart_mass(a) for c, a in st)
        act = sum(c * oracle_mass(a) for c, a in st)
        rho = E.real('rho', lo=0, lo_open=True, hi=25)
        f = formulas.formula(st, density=rho)
        E.eq('natural_mass_ratio', f.natural_mass_ratio() * act, nat)
        E.eq('natural_density_getter', f.natural_density * act, rho * nat)
        # keyword natural_density
        g = formulas.formula(st, natural_density=rho)
        E.eq('natural_density_keyword', g.density * nat, rho * act)
        E.eq('keyword_readback', g.natural_density, rho)
        # attribute assignment: set one, read the other
        k = formulas.formula(st)
        k.natural_density = rho
        E.eq('attribute_natural_then_density', k.density * nat, rho * act)
        k.density = rho
        E.eq('attribute_density_then_natural', k.natural_density * act, rho * nat)
        E.eq('density_keyword', f.density, rho)
        # the keywords also win over the density carried by a Formula object used as initialiser
        rho2 = E.real('rho2', lo=0, lo_open=True, hi=25)
        h1 = formulas.formula(f, natural_density=rho2)
        E.eq('formula_object_natural_density_keyword', h1.natural_density, rho2)
        E.eq('formula_object_natural_density_keyword.density', h1.density * nat, rho2 * act)
        h2 = formulas.formula(f, density=rho2)
        E.eq('formula_object_density_keyword', h2.density, rho2)
        h3 = formulas.formula(f)
        E.eq('formula_object_inherits_density', h3.density, rho)
        h4 = formulas.Formula(structure=f.structure, natural_density=rho2)
        E.eq('Formula_natural_density_argument', h4.natural_density, rho2)
    return h


def _tags_case(text_keys, isos):
    """'@d', '@dn', '@di' tags agree with keywords and attributes (string skeleton, literal symbolic)"""
    def h(E):
        from periodictable import formulas
        sp.reset()
        T, atoms, _ = cm.sym_pool(E, 'c12t', text_keys, neutron=False, natural=True, density=True)
        lits = [sp.Lit(E, 'n%d' % i, 'whole' if i % 2 else 'fract') for i in range(len(atoms))]
        d = sp.Lit(E, 'dtag', 'fract', hi=25)
        body = ''
        for a, l in zip(atoms, lits):
            b = cm.base_of(a)
            body += b.symbol if not hasattr(b, 'isotope') or b.symbol in ('D', 'T') else '%s[%d]' % (b.symbol, b.isotope)
            body += sp.ion_text(getattr(a, 'charge', 0)) + l.text
        st = [(l.value, a) for l, a in zip(lits, atoms)]
        nat = sum(c * natural_counterpart_mass(a) for c, a in st)
        act = sum(c * oracle_mass(a) for c, a in st)
        with sp.parsing(E):
            f_i = formulas.formula(body + '@' + d.text, table=T)
            f_ii = formulas.formula(body + '@' + d.text + 'i', table=T)
            f_n = formulas.formula(body + '@' + d.text + 'n', table=T)
            f_kw = formulas.formula(body, natural_density=d.value, table=T)
            f_kd = formulas.formula(body, density=d.value, table=T)
        E.note(body + '@' + d.text + 'n')
        E.eq('tag_plain_is_density', f_i.density, d.value)
        E.eq('tag_i_is_density', f_ii.density, d.value)
        E.eq('tag_n_is_natural_density', f_n.density * nat, d.value * act)
        E.eq('tag_n_equals_keyword', f_n.density, f_kw.density)
        E.eq('tag_equals_density_keyword', f_i.density, f_kd.density)
        E.fact('same_atoms', f_n.atoms.keys() == f_kw.atoms.keys() == f_i.atoms.keys())
    return h


def _single_atom_default(E):
    from periodictable import formulas
    keys = ['X', 'Xi', 'Xq', 'Xiq', 'D']
    T, atoms, _ = cm.sym_pool(E, 'c12', keys, neutron=False, natural=True, density=True)
    el = atoms[0]
    for k, a in zip(keys, atoms):
        f = formulas.formula(a)
        E.eq('single_atom_density[%s]' % k, f.density, a.density)
        c = E.real('cc_' + k, lo=0, lo_open=True, hi=1000)
        g = formulas.formula([(c, a)])
        E.eq('single_atom_density_counted[%s]' % k, g.density, a.density)
        # "a single-atom formula" is about the atoms, however the formula is spelled
        c2 = E.real('cd_' + k, lo=0, lo_open=True, hi=1000)
        for nm, st in (('split', [(c, a), (c2, a)]), ('nested', [(c, [(c2, a)])]), ('group_then_atom', [(c, [(1, a)]), (c2, a)])):
            g2 = formulas.formula(st)
            E.fact('single_atom_density_%s_known[%s]' % (nm, k), g2.density is not None)
            if g2.density is not None:
                E.eq('single_atom_density_%s[%s]' % (nm, k), g2.density, a.density)
    # a lone group of two different atoms is not a single-atom formula: no default density
    two = formulas.formula([(E.real('cg', lo=0, lo_open=True, hi=1000), [(1, atoms[0]), (2, atoms[4])])])
    E.fact('two_atom_group_has_no_default_density', two.density is None, note=repr(two.density))
    import periodictable as pt
    for text, single in (('FeFe', pt.Fe), ('Fe + Fe', pt.Fe), ('Fe2(Fe)3', pt.Fe), ('D D2', pt.D), ('3H2O', None), ('(HDO)2', None), ('(FeNi)2', None)):
        d = formulas.formula(text).density
        E.fact('default_density[%s]' % text, (d is None) if single is None else (d == single.density), note=repr(d))
    # an atom whose element has no tabulated density: the default is "unknown", for the element, its isotopes and its ions
    for atom in (pt.Ra, pt.Ra.ion[2], pt.Rn[222], pt.At, pt.Fr.ion[1], pt.Rn[222].ion[1] if 1 in pt.Rn.ions else pt.Ra[226].ion[2]):
        try:
            d = formulas.formula(atom).density
            d2 = formulas.formula(str(formulas.formula(atom))).density
            E.fact('unknown_default_density[%s]' % atom, d is None and d2 is None, note=repr((d, d2)))
        except Exception as e:   # noqa: BLE001
            E.fact('unknown_default_density[%s]' % atom, False, note='%s: %s' % (type(e).__name__, e))
    # isotope density = element density scaled by the mass ratio
    iso = atoms[1]
    E.eq('isotope_density', iso.density * el.mass, el.density * iso.mass)


def _replace_case(keys, src, tgt, dens_known, portion_one=False):
    def h(E):
        from periodictable import formulas
        allk = list(dict.fromkeys(list(keys) + [src, tgt]))
        T, atoms, _ = cm.sym_pool(E, 'c12r', allk, neutron=False, natural=True, density=True)
        A = dict(zip(allk, atoms))
        counts = {k: E.real('c_' + k, lo=0, lo_open=True, hi=1000) for k in keys}
        st = [(counts[k], A[k]) for k in keys]
        rho = E.real('rho', lo=0, lo_open=True, hi=25)
        f = formulas.formula(st, density=rho) if dens_known else formulas.formula(st)
        if len(keys) == 1 and not dens_known:
            f.density = None
        if portion_one:
            p = 1
        else:
            p = E.real('portion', lo=0, hi=1)
        before = dict(f.atoms)
        old_mass = sum(c * oracle_mass(a) for a, c in before.items())
        g = f.replace(A[src], A[tgt]) if portion_one else f.replace(A[src], A[tgt], portion=p)
        got = g.atoms
        want = dict(before)
        if A[src] in before:
            moved = before[A[src]] * p
            want[A[tgt]] = want.get(A[tgt], 0) + moved
            if p == 1:
                del want[A[src]]
            else:
                want[A[src]] = before[A[src]] * (1 - p)
        E.fact('atom_set', set(got) == set(want), note='%s vs %s' % (sorted(map(str, got)), sorted(map(str, want))))
        for a in want:
            if a in got:
                E.eq('atoms[%s]' % a, got[a], want[a])
        new_mass = sum(c * oracle_mass(a) for a, c in want.items())
        if dens_known:
            E.fact('density_known', g.density is not None)
            if g.density is not None:
                # same cell volume: density scales with mass
                E.eq('density_scales_with_mass', g.density * old_mass, rho * new_mass)
        else:
            if len(want) > 1:
                E.fact('density_stays_unknown', g.density is None, note=repr(g.density))
            # (a result with a single atom left falls under "a single-atom formula defaults to that atom's density")
        E.fact('original_unchanged', dict(f.atoms).keys() == before.keys())
        for a in before:
            E.eq('original_atoms[%s]' % a, f.atoms[a], before[a])
    return h


LATTICES = dict(cubic=math.pi / 6, bcc=math.pi * math.sqrt(3) / 8, hcp=math.pi / math.sqrt(18), fcc=math.pi / math.sqrt(18),
                diamond=math.pi * math.sqrt(3) / 16)


def _volume_case(keys, pf_kind):
    def h(E):
        from periodictable import formulas
        T, atoms, counts = _formula(E, keys)
        radii = {}
        for k, a in zip(keys, atoms):
            b = cm.base_of(a)
            el = getattr(b, 'element', b)
            if el not in radii:
                radii[el] = E.real(k + '_r', lo=0.2, hi=3)
                el.covalent_radius = radii[el]
        f = formulas.formula(list(zip(counts, atoms)))
        spheres = 0
        for c, a in zip(counts, atoms):
            b = cm.base_of(a)
            el = getattr(b, 'element', b)
            r = radii[el]
            spheres = spheres + c * 4 * math.pi / 3 * r * r * r
        if pf_kind == 'float':
            pf = E.real('pf', lo=0.05, hi=1)
            v = f.volume(packing_factor=pf)
            E.eq('volume_packing_float', v * pf, spheres * 1e-24)
            v2 = f.volume(pf)
            E.eq('volume_positional_packing', v2, v)
            if not E.symbolic:
                # any real number type is a packing factor (numpy scalars, 0-d arrays, fractions), by keyword or position
                from fractions import Fraction
                ref = float(f.volume(packing_factor=0.5))
                for val in (np.float64(0.5), np.float32(0.5), Fraction(1, 2), np.array(0.5)):
                    for how in ('keyword', 'position'):
                        try:
                            got = float(f.volume(packing_factor=val) if how == 'keyword' else f.volume(val))
                            E.fact('packing_factor_type[%s|%s]' % (type(val).__name__, how), abs(got - ref) <= 1e-6 * ref, note=repr((got, ref)))
                        except Exception as e:   # noqa: BLE001
                            E.fact('packing_factor_type[%s|%s]' % (type(val).__name__, how), False, note='%s: %s' % (type(e).__name__, e))
                ref1 = float(f.volume(packing_factor=1.0))
                for val in (1, np.int64(1), np.int32(1)):
                    try:
                        got = float(f.volume(packing_factor=val))
                        E.fact('packing_factor_type[%s]' % type(val).__name__, abs(got - ref1) <= 1e-9 * ref1, note=repr((got, ref1)))
                    except Exception as e:   # noqa: BLE001
                        E.fact('packing_factor_type[%s]' % type(val).__name__, False, note='%s: %s' % (type(e).__name__, e))
        elif pf_kind == 'default':
            v = f.volume()
            E.eq('volume_default_hcp', v * LATTICES['hcp'], spheres * 1e-24)
        else:
            for nm in (pf_kind, pf_kind.upper()):
                v = f.volume(packing_factor=nm)
                E.eq('volume_lattice[%s]' % nm, v * LATTICES[pf_kind], spheres * 1e-24)
            v3 = f.volume(pf_kind)
            E.eq('volume_positional_name', v3 * LATTICES[pf_kind], spheres * 1e-24)
    return h


def _cell_case(mask, via):
    """mask: which of b, c, alpha, beta, gamma are given"""
    def h(E):
        from periodictable import formulas, util
        import periodictable as pt
        a = E.real('a', lo=0.5, hi=50)
        kw = {}
        names = ['b', 'c', 'alpha', 'beta', 'gamma']
        vals = {}
        for i, n in enumerate(names):
            if mask & (1 << i):
                vals[n] = E.real(n, lo=0.5, hi=50) if n in ('b', 'c') else E.real(n, lo=20, hi=160)
                kw[n] = vals[n]
        b = vals.get('b', a)
        c = vals.get('c', a)

        def cosd(x):
            if E.symbolic:
                return sym.sym_cos_deg(x)
            return math.cos(math.radians(x))
        ca = cosd(vals['alpha']) if 'alpha' in vals else 0
        cb = cosd(vals['beta']) if 'beta' in vals else ca
        cg = cosd(vals['gamma']) if 'gamma' in vals else ca
        X = 1 - ca * ca - cb * cb - cg * cg + 2 * ca * cb * cg
        E.assume(X >= 0)
        if via == 'util':
            V = util.cell_volume(a, **kw)
            scale = 1
        else:
            f = formulas.formula('Fe2O3')
            V = f.volume(a=a, **kw)
            scale = 1e-24
            # lattice parameters given positionally (two or more) are lattice parameters too
            given = [n for n in names if n in vals]
            k = 0
            while k < len(names) and names[k] in vals:
                k += 1
            if k >= 1:
                rest_kw = {n: vals[n] for n in given if names.index(n) >= k}
                Vp = f.volume(a, *[vals[n] for n in names[:k]], **rest_kw)
                E.eq('cell_volume_positional', Vp, V)
        E.eq('cell_volume_sq', V * V, (a * b * c) * (a * b * c) * X * scale * scale)
        E.true('cell_volume_nonneg', V >= 0)
    return h


def cases(tier):
    th = tier == 'thorough'
    mp = 128 if not th else 1024
    to = 20000 if not th else 60000
    out = []
    ks = [('Xi', 'Y'), ('X', 'Xi', 'D', 'Y'), ('Xq', 'Y'), ('Xiq', 'Yq'), ('D', 'Dq', 'Y')]
    if th:
        ks += [('X',), ('Xi',), ('Xq',), ('Xiq',), ('H', 'H1', 'D', 'T'), ('Xi', 'Xiq', 'Wi', 'Yi'), ('Dq', 'Hq', 'Yq', 'T'), ('Xi', 'Xq', 'Xiq', 'X', 'Yi'),
               ('C', 'N', 'Ca', 'Wi', 'Yq')]
    for k in ks:
        out.append(Case('natural_ratio[%s]' % '+'.join(k), _ratio_case(k), max_paths=mp, timeout_ms=to, portfolio=th))
    out.append(Case('tags[Xi+Y]', _tags_case(['Xi', 'Y'], None), max_paths=mp, timeout_ms=to))
    out.append(Case('tags[D+Yi+Xq]', _tags_case(['D', 'Yi', 'Xq'], None), max_paths=mp, timeout_ms=to))
    if th:
        out.append(Case('tags[Xiq+H1]', _tags_case(['Xiq', 'H1'], None), max_paths=mp, timeout_ms=to))
    out.append(Case('single_atom_default', _single_atom_default, max_paths=mp, timeout_ms=to))
    rep = [(('H', 'Y'), 'H', 'D', True, False), (('H', 'Y'), 'H', 'D', False, False), (('H', 'Y'), 'H', 'D', True, True),
           (('H', 'Y'), 'H', 'D', False, True), (('H1', 'D', 'Y'), 'H1', 'D', True, False), (('X', 'Y'), 'Z', 'D', True, False),
           (('X', 'Y'), 'Z', 'D', False, False), (('Xq', 'Y'), 'Xq', 'Xiq', True, False), (('H',), 'H', 'D', True, False),
           (('X', 'Y'), 'X', 'Z', True, False), (('Xi', 'Y', 'D'), 'Y', 'Xi', True, True)]
    if th:
        rep += [(('X', 'Xi', 'Y'), 'X', 'Xi', True, False), (('H', 'H1', 'D', 'Y'), 'H1', 'H', True, False), (('Xq', 'Xiq', 'Y'), 'Xiq', 'Xq', True, False),
                (('D', 'T', 'H'), 'T', 'D', True, False), (('Xi', 'Y'), 'Xi', 'Y', True, False), (('Xi', 'Y'), 'Y', 'Xi', False, False),
                (('H1', 'Y'), 'H1', 'H', False, True), (('Xi', 'Y', 'Z'), 'Y', 'Yi', True, True)]
    for keys, s, t, dk, p1 in rep:
        out.append(Case('replace[%s|%s->%s|%s|%s]' % ('+'.join(keys), s, t, 'rho' if dk else 'norho', 'p=1' if p1 else 'p'),
                        _replace_case(keys, s, t, dk, p1), max_paths=mp, timeout_ms=to, portfolio=th))
    for pf in ['float', 'default', 'cubic', 'bcc', 'hcp', 'fcc', 'diamond']:
        out.append(Case('volume[%s]' % pf, _volume_case(('X', 'Yq', 'Xi') if pf == 'float' else ('X', 'Y'), pf), max_paths=mp, timeout_ms=to))
    masks = range(32) if th else [0, 1, 3, 4, 12, 28, 31, 16, 21]
    for m in masks:
        out.append(Case('cell[%02d|formula]' % m, _cell_case(m, 'formula'), max_paths=mp, timeout_ms=to))
    for m in ([0, 31, 7] if not th else [0, 31, 7, 20, 9]):
        out.append(Case('cell[%02d|util]' % m, _cell_case(m, 'util'), max_paths=mp, timeout_ms=to))
    return out
