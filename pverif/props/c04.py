"""C04 -- neutron results obey density, cell-size, grouping, unit and vector invariances."""
from __future__ import annotations

import numpy as np

from ..runner import Case
from .. import sym
from . import common as cm

META = dict(
    functions=['periodictable.nsf:neutron_scattering', 'periodictable.nsf:_calculate_scattering',
               'periodictable.nsf:Neutron.scattering_by_wavelength', 'periodictable.nsf:neutron_wavelength',
               'periodictable.nsf:neutron_energy', 'periodictable.nsf:neutron_wavelength_from_velocity',
               'periodictable.formulas:_count_atoms', 'periodictable.formulas:Formula.__rmul__'],
    bounds=("relational: two or more symbolic runs of the real code in one query; compounds of 1-3 atoms (4 thorough) "
            "with symbolic counts, masses, b_c, sigma_s; scale factors k, c > 0 symbolic; structure shapes with the same "
            "leaf multiset (depth <= 3); wavelength vectors of length 1-2 (3 thorough) through real numpy broadcasting"),
    outside="floating-point rounding; vectors longer than 3",
    stubs="sqrt: r>=0 & r*r==x; np.maximum and abs: fork",
    assumptions=["floats as exact reals", "mass, density, wavelength > 0; sigma_s >= 0; Im b_c of either sign in the non-negativity cases"],
)

NAMES = ['sld_re', 'sld_im', 'sld_inc', 'coh', 'abs', 'inc', 'pen']


def flat(r):
    return list(r[0]) + list(r[1]) + [r[2]]


def _mk(E, keys, tag, absorbing=True):
    from periodictable import formulas
    T, atoms, data = cm.sym_pool(E, tag, keys, absorbing=absorbing, natural=False)
    counts = [E.real('c_' + k, lo=0, lo_open=True, hi=1000) for k in keys]
    return T, atoms, data, counts


def _density_scaling(keys):
    def h(E):
        from periodictable import nsf, formulas
        T, atoms, data, counts = _mk(E, keys, 'c04')
        f = formulas.formula(list(zip(counts, atoms)))
        rho = E.real('rho', lo=0, lo_open=True, hi=25)
        k = E.real('k', lo=0, lo_open=True, hi=100)
        lam = E.real('lam', lo=0.05, hi=50)
        a = flat(nsf.neutron_scattering(f, density=rho, wavelength=lam))
        b = flat(nsf.neutron_scattering(f, density=k * rho, wavelength=lam))
        for n, x, y in zip(NAMES[:6], a, b):
            E.eq('scale_density.' + n, y, k * x)
        E.eq('scale_density.pen', b[6] * k, a[6])
    return h


def _formula_object_density(keys):
    """density= applies also when the compound is a Formula object that already carries a density"""
    def h(E):
        from periodictable import nsf, formulas
        T, atoms, data, counts = _mk(E, keys, 'c04')
        own = E.real('rho_own', lo=0, lo_open=True, hi=25)
        f = formulas.formula(list(zip(counts, atoms)), density=own)
        g = formulas.formula(list(zip(counts, atoms)))
        rho = E.real('rho', lo=0, lo_open=True, hi=25)
        k = E.real('k', lo=0, lo_open=True, hi=100)
        lam = E.real('lam', lo=0.05, hi=50)
        a = flat(nsf.neutron_scattering(f, density=rho, wavelength=lam))
        b = flat(nsf.neutron_scattering(g, density=rho, wavelength=lam))
        c = flat(nsf.neutron_scattering(f, density=k * rho, wavelength=lam))
        for n, x, y in zip(NAMES, a, b):
            E.eq('density_keyword_overrides_formula_density.' + n, x, y)
        for n, x, y in zip(NAMES[:6], a, c):
            E.eq('scale_density_formula_object.' + n, y, k * x)
        d = flat(nsf.neutron_scattering(f, wavelength=lam))
        e = flat(nsf.neutron_scattering(g, density=own, wavelength=lam))
        for n, x, y in zip(NAMES, d, e):
            E.eq('formula_density_used_when_no_keyword.' + n, x, y)
    return h


def _count_scaling(keys):
    def h(E):
        from periodictable import nsf, formulas
        T, atoms, data, counts = _mk(E, keys, 'c04')
        f = formulas.formula(list(zip(counts, atoms)))
        rho = E.real('rho', lo=0, lo_open=True, hi=25)
        c = E.real('cc', lo=0, lo_open=True, hi=1000)
        lam = E.real('lam', lo=0.05, hi=50)
        a = flat(nsf.neutron_scattering(f, density=rho, wavelength=lam))
        g = formulas.formula([(c * x, at) for x, at in zip(counts, atoms)])
        b = flat(nsf.neutron_scattering(g, density=rho, wavelength=lam))
        for n, x, y in zip(NAMES, a, b):
            E.eq('scale_counts.' + n, y, x)
        g2 = c * f      # the n*formula operator
        b2 = flat(nsf.neutron_scattering(g2, density=rho, wavelength=lam))
        for n, x, y in zip(NAMES, a, b2):
            E.eq('scale_counts_rmul.' + n, y, x)
    return h


def _regroup(shape_name):
    """two structures with the same leaf multiset"""
    def h(E):
        from periodictable import nsf, formulas
        keys = ['X', 'Y', 'D']
        T, atoms, data, counts = _mk(E, keys, 'c04')
        X, Y, D = atoms
        c1, c2, c3 = counts
        a_ = E.real('split', lo=0, lo_open=True, hi=1000)
        g = E.real('g', lo=0, lo_open=True, hi=1000)
        base = [(c1 * g, X), (c2 * g, Y), (c3, D)]
        shapes = {
            'reorder': [(c3, D), (c2 * g, Y), (c1 * g, X)],
            'group': [(g, [(c1, X), (c2, Y)]), (c3, D)],
            'nested': [(1, [(g, [(c1, X), (1, [(c2, Y)])])]), (1, [(c3, D)])],
            'repeat': [(c1 * g, X), (c3 * a_, D), (c2 * g, Y), (c3 * (1 - a_), D)],
            'group_reorder': [(c3, D), (g, [(c2, Y), (c1, X)])],
        }
        if shape_name == 'repeat':
            E.assume(a_ < 1)
        rho = E.real('rho', lo=0, lo_open=True, hi=25)
        lam = E.real('lam', lo=0.05, hi=50)
        a = flat(nsf.neutron_scattering(formulas.formula(base), density=rho, wavelength=lam))
        b = flat(nsf.neutron_scattering(formulas.formula(shapes[shape_name]), density=rho, wavelength=lam))
        for n, x, y in zip(NAMES, a, b):
            E.eq('regroup[%s].%s' % (shape_name, n), y, x)
    return h


def _regroup_ions(E):
    """reordering with two same-charge ions of one element that differ only in isotope (H+ and D+)"""
    from periodictable import nsf, formulas
    T, atoms, data, counts = _mk(E, ('Hq', 'Dq', 'Yq'), 'c04')
    Hq, Dq, Yq = atoms
    c1, c2, c3 = counts
    rho = E.real('rho', lo=0, lo_open=True, hi=25)
    lam = E.real('lam', lo=0.05, hi=50)
    a = flat(nsf.neutron_scattering(formulas.formula([(c1, Hq), (c2, Dq), (c3, Yq)]), density=rho, wavelength=lam))
    for nm, st in (('DHO', [(c2, Dq), (c1, Hq), (c3, Yq)]), ('OHD', [(c3, Yq), (c1, Hq), (c2, Dq)]), ('grouped', [(1, [(c2, Dq), (c3, Yq)]), (c1, Hq)])):
        b = flat(nsf.neutron_scattering(formulas.formula(st), density=rho, wavelength=lam))
        for n, x, y in zip(NAMES, a, b):
            E.eq('reorder_ions[%s].%s' % (nm, n), y, x)


def _count_scaling_natural(keys):
    """count scaling also when the density is given as natural_density (isotopes and ions in the formula)"""
    def h(E):
        from periodictable import nsf, formulas
        T, atoms, data = cm.sym_pool(E, 'c04nat', keys, absorbing=True, natural=True)
        counts = [E.real('c_' + k, lo=0, lo_open=True, hi=1000) for k in keys]
        rho = E.real('rho', lo=0, lo_open=True, hi=25)
        c = E.real('cc', lo=0, lo_open=True, hi=1000)
        lam = E.real('lam', lo=0.05, hi=50)
        f = formulas.formula(list(zip(counts, atoms)))
        g = formulas.formula([(c * x, at) for x, at in zip(counts, atoms)])
        a = flat(nsf.neutron_scattering(f, natural_density=rho, wavelength=lam))
        b = flat(nsf.neutron_scattering(g, natural_density=rho, wavelength=lam))
        for n, x, y in zip(NAMES, a, b):
            E.eq('scale_counts_natural_density.' + n, y, x)
        b2 = flat(nsf.neutron_scattering(c * f, natural_density=rho, wavelength=lam))
        for n, x, y in zip(NAMES, a, b2):
            E.eq('scale_counts_natural_density_rmul.' + n, y, x)
    return h


def _method_interface(keys):
    """the Formula.neutron_sld method agrees with nsf.neutron_sld for wavelength= and energy="""
    def h(E):
        from periodictable import nsf, formulas
        T, atoms, data, counts = _mk(E, keys, 'c04')
        rho = E.real('rho', lo=0, lo_open=True, hi=25)
        f = formulas.formula(list(zip(counts, atoms)), density=rho)
        en = E.real('energy', lo=0.03, hi=33000)
        lam = E.real('lam', lo=0.05, hi=50)
        ref_e = nsf.neutron_sld(f, energy=en)
        ref_w = nsf.neutron_sld(f, wavelength=lam)
        m_e = f.neutron_sld(energy=en)
        m_w = f.neutron_sld(wavelength=lam)
        for n, x, y in zip(NAMES[:3], m_e, ref_e):
            E.eq('method_energy.' + n, x, y)
        for n, x, y in zip(NAMES[:3], m_w, ref_w):
            E.eq('method_wavelength.' + n, x, y)
        # vector energies through the method keep their shape
        es = [E.real('energy%d' % i, lo=0.03, hi=33000) for i in range(2)]
        mv = f.neutron_sld(energy=np.array(es, dtype=object if E.symbolic else float))
        for n, o in zip(NAMES[:3], mv):
            ok = isinstance(o, np.ndarray) and o.shape == (2,)
            E.fact('method_vector_shape.' + n, ok, note=repr(getattr(o, 'shape', None)))
            if ok:
                for i, e1 in enumerate(es):
                    E.eq('method_vector[%d].%s' % (i, n), o[i], nsf.neutron_sld(f, energy=e1)[NAMES.index(n)])
    return h


def _energy_vs_wavelength(keys):
    def h(E):
        from periodictable import nsf, formulas
        T, atoms, data, counts = _mk(E, keys, 'c04')
        f = formulas.formula(list(zip(counts, atoms)))
        rho = E.real('rho', lo=0, lo_open=True, hi=25)
        en = E.real('energy', lo=0.03, hi=33000)
        lam = nsf.neutron_wavelength(en)
        a = flat(nsf.neutron_scattering(f, density=rho, energy=en))
        b = flat(nsf.neutron_scattering(f, density=rho, wavelength=lam))
        for n, x, y in zip(NAMES, a, b):
            E.eq('energy_vs_wavelength.' + n, x, y)
        # energy wins over wavelength when both are given ("If energy is specified then wavelength is ignored")
        c = flat(nsf.neutron_scattering(f, density=rho, energy=en, wavelength=E.real('lam_ignored', lo=0.05, hi=50)))
        for n, x, y in zip(NAMES, a, c):
            E.eq('energy_wins.' + n, x, y)
    return h


def _conversions(E):
    from periodictable import nsf
    from periodictable.constants import plancks_constant, electron_volt, neutron_mass, atomic_mass_constant
    lam = E.real('lam', lo=0.05, hi=50)
    en = E.real('energy', lo=0.03, hi=33000)
    v = E.real('v', lo=50, hi=80000)
    s = lambda x: (x.item() if isinstance(x, np.ndarray) and E.symbolic else x)   # noqa: E731
    EF = plancks_constant ** 2 * electron_volt / (2 * neutron_mass * atomic_mass_constant) * 1e23
    VF = plancks_constant * electron_volt / (neutron_mass * atomic_mass_constant) * 1e10
    e_of_l = s(nsf.neutron_energy(lam))
    E.eq('E_lambda2_const', e_of_l * lam * lam, EF)
    l_of_e = s(nsf.neutron_wavelength(en))
    E.eq('lambda2_E_const', l_of_e * l_of_e * en, EF)
    E.true('wavelength_positive', l_of_e > 0)
    l_of_v = s(nsf.neutron_wavelength_from_velocity(v))
    E.eq('v_lambda_const', l_of_v * v, VF)
    E.eq('E_of_lambda_of_E', s(nsf.neutron_energy(l_of_e)), en)
    l2 = s(nsf.neutron_wavelength(e_of_l))
    E.eq('lambda_of_E_of_lambda', l2, lam)
    # E = 1/2 m v^2 with lambda = h/(m v): E(meV) * lambda^2 == (1/2 m_n u / eV * 1000) * (v lambda)^2
    kin = 0.5 * neutron_mass * atomic_mass_constant / electron_volt * 1000
    E.eq('kinetic_consistency', s(nsf.neutron_energy(l_of_v)), kin * v * v)
    # documented anchor 1.798 A = 2200 m/s = 25.3 meV (ground facts on the module constants)
    E.fact('anchor_energy', abs(float(nsf.neutron_energy(1.798)) - 25.3) < 0.05, note=str(float(nsf.neutron_energy(1.798))))
    E.fact('anchor_velocity', abs(float(nsf.neutron_wavelength_from_velocity(2200.)) - 1.798) < 0.001,
           note=str(float(nsf.neutron_wavelength_from_velocity(2200.))))
    E.fact('anchor_wavelength', abs(float(nsf.neutron_wavelength(25.3)) - 1.798) < 0.002)
    E.fact('absorption_wavelength', nsf.ABSORPTION_WAVELENGTH == 1.798)


def _vector(keys, n, kind='wavelength'):
    def h(E):
        from periodictable import nsf, formulas
        T, atoms, data, counts = _mk(E, keys, 'c04')
        f = formulas.formula(list(zip(counts, atoms)))
        rho = E.real('rho', lo=0, lo_open=True, hi=25)
        lams = [E.real('lam%d' % i, lo=0.05, hi=50) for i in range(n)]
        vec = np.array(lams, dtype=object if E.symbolic else float)
        if kind == 'list':
            arg = list(lams)
        else:
            arg = vec
        snap = cm.Snapshot(compound=f, vector=vec, **({'sequence': arg} if kind == 'list' else {}))
        if kind == 'energy':
            r = nsf.neutron_scattering(f, density=rho, energy=arg)
        else:
            r = nsf.neutron_scattering(f, density=rho, wavelength=arg)
        snap.check(E, 'vector_call')
        out = flat(r)
        for name, o in zip(NAMES, out):
            ok = isinstance(o, np.ndarray) and o.shape == (n,)
            # outputs that do not depend on the wavelength may legitimately be returned as vectors or scalars
            # only when they are constant; the property demands vectors
            E.fact('vector_shape.' + name, ok, note='%s %r' % (type(o).__name__, getattr(o, 'shape', None)))
        for i, l in enumerate(lams):
            if kind == 'energy':
                s = flat(nsf.neutron_scattering(f, density=rho, energy=l))
            else:
                s = flat(nsf.neutron_scattering(f, density=rho, wavelength=l))
            for name, o, sv in zip(NAMES, out, s):
                if isinstance(o, np.ndarray) and o.shape == (n,):
                    E.eq('vector[%d].%s' % (i, name), o[i], sv)
    return h


def _vector_edep(segs, kind='wavelength'):
    """vector call == scalar calls when an atom carries an energy table (3 symbolic nodes at 1, 2, 4 A);
    one wavelength per listed segment, so vectors mixing in-table and beyond-the-table values are covered"""
    def h(E):
        from periodictable import nsf, formulas
        from .. import sym
        T, atoms, data, counts = _mk(E, ('X', 'Y'), 'c04e')
        X = atoms[0]
        vals = []
        for i in range(3):
            re = E.real('tab_re%d' % i, lo=-20, hi=20)
            im = E.real('tab_im%d' % i, lo=-5, hi=0)
            vals.append(sym.SymComplex(re, im) if E.symbolic else complex(re, im))
        X.neutron.nsf_table = (np.array([1.0, 2.0, 4.0]), np.array(vals, dtype=object if E.symbolic else complex))
        try:
            f = formulas.formula(list(zip(counts, atoms)))
            rho = E.real('rho', lo=0, lo_open=True, hi=25)
            lams = [E.real('lam%d' % i, lo=lo, hi=hi) for i, (lo, hi) in enumerate(segs)]
            n = len(lams)
            if kind == 'energy':
                ens = [nsf.ENERGY_FACTOR / (l * l) for l in lams]
                r = nsf.neutron_scattering(f, density=rho, energy=np.array(ens, dtype=object if E.symbolic else float))
            else:
                r = nsf.neutron_scattering(f, density=rho, wavelength=np.array(lams, dtype=object if E.symbolic else float))
            out = flat(r)
            for i, l in enumerate(lams):
                s = flat(nsf.neutron_scattering(f, density=rho, wavelength=l))
                for name, o, sv in zip(NAMES, out, s):
                    if isinstance(o, np.ndarray) and o.shape == (n,):
                        E.eq('vector_edep[%d].%s' % (i, name), o[i], sv)
                    else:
                        E.fact('vector_edep_shape.' + name, False, note=repr(getattr(o, 'shape', None)))
        finally:
            X.neutron.nsf_table = None
    return h


def _extreme_magnitudes_case(case, tier, seed):
    """ground (concrete; not a solver claim): the scaling laws at magnitudes far from 1 -- densities from 1e-15 to 1e3,
    formula units scaled by 1e-12 .. 1e12 -- where an absolute tolerance or an integer type would show"""
    import periodictable as pt
    from periodictable import nsf, formulas
    res = dict(paths=1, claims=0, discharged=0, queries=0, distinct=0, violations=[], inconclusive=[], samples=[], solver_s=0.0, complete=True)
    pt.H.neutron

    def check(name, ok, vals, obs):
        res['claims'] += 1
        if ok:
            res['discharged'] += 1
        elif len(res['violations']) < 5:
            res['violations'].append(dict(case=case.name, claim=name, values=vals, observed=obs, how='concrete'))
    for text in ('H2O', 'Fe{3+}2O{2-}3', 'Gd[157]2O3', 'D{+}H{+}O{2-}'):
        f = formulas.formula(text)
        ref = flat(nsf.neutron_scattering(f, density=1.0, wavelength=2.5))
        for rho in (1e-15, 1e-12, 1e-10, 1e-7, 1e-3, 1e3):
            got = flat(nsf.neutron_scattering(f, density=rho, wavelength=2.5))
            ok = all(abs(g - rho * r) <= 1e-9 * abs(rho * r) for g, r in zip(got[:6], ref[:6])) and abs(got[6] * rho - ref[6]) <= 1e-9 * ref[6]
            check('density_scaling_extreme[%s]' % text, ok, {'density': rho}, [repr(got)[:120], repr([rho * r for r in ref[:6]])[:120]])
        for k in (1e-12, 1e-6, 1e6, 1e12, 3, np.int64(7), np.float32(0.5)):
            got = flat(nsf.neutron_scattering(k * f, density=1.0, wavelength=2.5))
            ok = all(abs(g - r) <= (1e-6 if isinstance(k, np.float32) else 1e-9) * abs(r) for g, r in zip(got, ref) if r != 0)
            check('count_scaling_extreme[%s]' % text, ok, {'factor': repr(k)}, [repr(got)[:120], repr(ref)[:120]])
    res['queries'] = res['distinct'] = res['claims']
    res['samples'] = [dict(note='ground; densities 1e-15..1e3, count factors 1e-12..1e12 and numpy scalar factors')]
    return res


def _vector_real_case(case, tier, seed):
    """ground (concrete; not a solver claim): vector call == scalar calls for every energy-dependent nuclide of the public
    table and a few ordinary ones, with vectors that mix wavelengths inside, below and beyond the tabulated range"""
    import periodictable as pt
    from periodictable import nsf, formulas, nsf_tables
    res = dict(paths=1, claims=0, discharged=0, queries=0, distinct=0, violations=[], inconclusive=[], samples=[], solver_s=0.0, complete=True)
    pt.H.neutron
    atoms = [getattr(pt, el) if iso is None else getattr(pt, el)[iso] for (el, iso) in nsf_tables.ENERGY_DEPENDENT_TABLES] + [pt.Fe, pt.H[1], pt.B[10]]
    vectors = ([0.31, 1.0, 1.798, 4.75, 12.0], [12.0, 0.5], [0.05, 30.0, 2.0], [1.0], [20.0, 25.0])
    for atom in atoms:
        f = formulas.formula([(2, atom), (3, pt.O)], density=5.0)
        for vec in vectors:
            for kind in ('wavelength', 'energy'):
                arg = np.array(vec) if kind == 'wavelength' else nsf.neutron_energy(np.array(vec))
                out = flat(nsf.neutron_scattering(f, **{kind: arg}))
                for i, l in enumerate(vec):
                    s = flat(nsf.neutron_scattering(f, wavelength=l))
                    for name, o, sv in zip(NAMES, out, s):
                        res['claims'] += 1
                        ok = isinstance(o, np.ndarray) and o.shape == (len(vec),) and abs(o[i] - sv) <= 1e-9 * max(abs(sv), 1e-30)
                        if ok:
                            res['discharged'] += 1
                        elif len(res['violations']) < 5:
                            res['violations'].append(dict(case=case.name, claim='vector_entry_equals_scalar[%s|%s].%s' % (atom, kind, name),
                                                          values={'wavelengths': vec, 'index': i}, observed=[repr(o)[:80], repr(sv)], how='concrete'))
    res['queries'] = res['distinct'] = res['claims']
    res['samples'] = [dict(materials=len(atoms), vectors=vectors)]
    return res


def _nonneg(keys):
    def h(E):
        from periodictable import nsf, formulas
        T, atoms, data, counts = _mk(E, keys, 'c04n', absorbing=True)
        # allow either sign of Im b_c here: results must be non-negative regardless
        for k, a in zip(keys, atoms):
            b = cm.base_of(a)
            im = E.real(k + '_bim_any', lo=-5, hi=5)
            if E.symbolic:
                b.neutron.b_c_complex = sym.SymComplex(b.neutron.b_c, im)
            else:
                b.neutron.b_c_complex = complex(b.neutron.b_c, im)
        f = formulas.formula(list(zip(counts, atoms)))
        rho = E.real('rho', lo=0, lo_open=True, hi=25)
        lam = E.real('lam', lo=0.05, hi=50)
        (sre, sim, sinc), (coh, ab, inc), pen = nsf.neutron_scattering(f, density=rho, wavelength=lam)
        E.true('nonneg.sld_im', sim >= 0)
        E.true('nonneg.sld_inc', sinc >= 0)
        E.true('nonneg.coh_xs', coh >= 0)
        E.true('nonneg.abs_xs', ab >= 0)
        E.true('nonneg.inc_xs', inc >= 0)
        E.true('nonneg.penetration', pen >= 0)
    return h


def cases(tier):
    th = tier == 'thorough'
    mp = 64 if not th else 512
    to = 30000 if not th else 120000
    out = []
    keysets = [('X', 'Y'), ('Xi', 'D', 'Yq')] + ([('X', 'Y', 'Z', 'D'), ('Xiq',), ('H', 'H1', 'D'), ('Xi', 'Xq', 'Y', 'D'), ('H1', 'D', 'T', 'Yq'), ('W', 'Wi', 'C', 'N')] if th else [])
    for ks in keysets:
        nm = '+'.join(ks)
        out.append(Case('density_scaling[%s]' % nm, _density_scaling(ks), max_paths=mp, timeout_ms=to, portfolio=th))
        out.append(Case('count_scaling[%s]' % nm, _count_scaling(ks), max_paths=mp, timeout_ms=to, portfolio=th))
        out.append(Case('energy_vs_wavelength[%s]' % nm, _energy_vs_wavelength(ks), max_paths=mp, timeout_ms=to, portfolio=th))
        out.append(Case('nonneg[%s]' % nm, _nonneg(ks), max_paths=mp, timeout_ms=to, portfolio=th))
    out.append(Case('formula_object_density[X+Y]', _formula_object_density(('X', 'Y')), max_paths=mp, timeout_ms=to, portfolio=th))
    out.append(Case('formula_object_density[Xiq]', _formula_object_density(('Xiq',)), max_paths=mp, timeout_ms=to, portfolio=th))
    out.append(Case('count_scaling_natural[Xq+Yq+D]', _count_scaling_natural(('Xq', 'Yq', 'D')), max_paths=mp, timeout_ms=to, portfolio=th))
    out.append(Case('count_scaling_natural[Xiq+Y]', _count_scaling_natural(('Xiq', 'Y')), max_paths=mp, timeout_ms=to, portfolio=th))
    out.append(Case('method_interface[X+Y]', _method_interface(('X', 'Y')), max_paths=mp, timeout_ms=to, portfolio=th))
    for sh in ['reorder', 'group', 'nested', 'repeat', 'group_reorder']:
        out.append(Case('regroup[%s]' % sh, _regroup(sh), max_paths=mp * 2, timeout_ms=to, portfolio=th))
    out.append(Case('conversions', _conversions, max_paths=16, timeout_ms=to))
    vec = [(('X', 'Y'), 1, 'wavelength'), (('X', 'Y'), 2, 'wavelength'), (('Xi', 'D'), 2, 'list'), (('X',), 2, 'energy')]
    if th:
        vec += [(('X', 'Y'), 3, 'wavelength'), (('Xi', 'D', 'Yq'), 2, 'wavelength'), (('X', 'Y'), 3, 'energy'), (('X',), 4, 'wavelength'),
                (('Xi', 'D', 'Yq'), 3, 'list'), (('Xiq', 'H1'), 2, 'energy')]
    out.append(Case('count_scaling[X alone]', _count_scaling(('X',)), max_paths=mp, timeout_ms=to, portfolio=th))
    out.append(Case('count_scaling[Xiq alone]', _count_scaling(('Xiq',)), max_paths=mp, timeout_ms=to, portfolio=th))
    out.append(Case('vector_vs_scalar_real_tables_ground', None, custom=_vector_real_case))
    out.append(Case('extreme_magnitudes_ground', None, custom=_extreme_magnitudes_case))
    out.append(Case('count_scaling[Hq+Dq+Yq]', _count_scaling(('Hq', 'Dq', 'Yq')), max_paths=mp, timeout_ms=to, portfolio=th))
    out.append(Case('regroup_same_charge_ions', _regroup_ions, max_paths=mp, timeout_ms=to, portfolio=th))
    # (a symbolic vector call on an atom with a symbolic energy table -- _vector_edep -- does not finish a single path in
    #  25 minutes: the interp fork tree times the vector width times nonlinear claims; the ground case above stands in)
    for ks, n, kind in vec:
        out.append(Case('vector[%s|n=%d|%s]' % ('+'.join(ks), n, kind), _vector(ks, n, kind), max_paths=mp * 4,
                        timeout_ms=to, portfolio=th))
    return out
