"""C19 -- Hill form is a canonical, composition-preserving normal form."""
from __future__ import annotations

import itertools

from ..runner import Case
from .. import sym, symparse as sp
from . import common as cm
from .c13 import same_structure

META = dict(
    functions=['periodictable.formulas:Formula.hill', 'periodictable.formulas:_convert_to_hill_notation',
               'periodictable.formulas:_hill_key', 'periodictable.formulas:formula', 'periodictable.formulas:Formula.__eq__'],
    bounds=("(C) CrossHair: two atoms built as real Element/Isotope/Ion objects from a symbolic 1-2 letter symbol, isotope "
            "number in [0,300] and charge in [-4,4]: order independent of insertion order and equal to the documented order; "
            "(A) every ordering and several groupings of <= 4 atoms from {C, H, D, T, elements, isotopes, ions, isotope ions} "
            "with symbolic counts: atoms preserved, idempotent, canonical, parsed Hill-ordered string equals its own Hill form"),
    outside="formulas with more than 4 distinct atoms (the order is decided pairwise by the sort key, which (C) covers for all pairs)",
    stubs="none",
    assumptions=["documented order: C, then H, then alphabetical by symbol; isotopes of one element by mass number (natural element first); "
                 "charge states of one atom in any fixed order"],
)


def doc_key(a):
    from periodictable.core import isisotope
    s = a.symbol
    return (0 if s == 'C' else 1 if s == 'H' else 2, s, a.isotope if isisotope(a) else 0)


def _atoms(names, private=False):
    import periodictable as pt
    if private:
        pt = cm.private_table('c19', neutron=False)
    P = dict(C=pt.C, H=pt.H, D=pt.D, T=pt.T, O=pt.O, Fe=pt.Fe, Fe56=pt.Fe[56], Fe54=pt.Fe[54], Fe2=pt.Fe.ion[2], Fe3=pt.Fe.ion[3],
             Fe56_2=pt.Fe[56].ion[2], Fe56_3=pt.Fe[56].ion[3], C13=pt.C[13], H1=pt.H[1], Cl=pt.Cl, Ca=pt.Ca, Co=pt.Co, Hp=pt.H.ion[1],
             Hm=pt.H.ion[-1], Dp=pt.D.ion[1], O2m=pt.O.ion[-2], He=pt.He, B=pt.B, Br=pt.Br,
             C9=pt.C[9], C12=pt.C[12], Li6=pt.Li[6], Li11=pt.Li[11], Pd99=pt.Pd[99], Pd102=pt.Pd[102], Be9=pt.Be[9], Be10=pt.Be[10])
    return [P[n] for n in names]


def _canonical_case(names, private=False):
    def h(E):
        from periodictable import formulas
        atoms = _atoms(names, private)
        if private:
            # on a private table the Hill form is made of that table's own atoms
            hp = formulas.formula([(1, a) for a in atoms]).hill
            E.fact('hill.atoms_of_the_same_table', all(any(x is a for a in atoms) for x in hp.atoms) and len(hp.atoms) == len(set(map(id, atoms))),
                   note=repr([getattr(cm.base_of(x), 'table', None) for x in hp.atoms])[:100])
        counts = [E.real('c%d' % i, lo=0, lo_open=True, hi=1000, sample=2.5 + 1.25 * i) for i in range(len(atoms))]
        pairs = list(zip(counts, atoms))
        ref = formulas.formula(pairs)
        href = ref.hill
        # atoms preserved
        E.fact('hill.atom_set', set(href.atoms) == set(ref.atoms))
        for a, c in ref.atoms.items():
            E.eq('hill.atoms[%s]' % a, href.atoms[a], c)
        # documented order
        order = [a for _, a in href.structure]
        E.fact('hill.flat', all(not isinstance(a, (list, tuple)) for a in order))
        keys = [doc_key(a) for a in order]
        E.fact('hill.documented_order', keys == sorted(keys), note=' '.join(map(str, order)))
        # idempotent
        same_structure(E, 'hill_hill', href.hill.structure, href.structure)
        E.fact('hill_hill.eq', href.hill == href)
        # canonical: every ordering and some groupings give the same hill structure
        perms = list(itertools.permutations(range(len(pairs))))
        for pi, perm in enumerate(perms):
            f = formulas.formula([pairs[i] for i in perm])
            same_structure(E, 'canonical.perm%d' % pi, f.hill.structure, href.structure)
        # a structure with a single top-level term: the whole formula in one group, and a scaled formula
        g1 = E.real('g1', lo=0, lo_open=True, hi=1000, sample=2.5)
        wrapped = formulas.formula([(g1, [(c / g1, a) for c, a in pairs[::-1]])])
        same_structure(E, 'canonical.single_group', wrapped.hill.structure, href.structure)
        scaled = g1 * formulas.formula([(c / g1, a) for c, a in pairs[::-1]])
        same_structure(E, 'canonical.scaled', scaled.hill.structure, href.structure)
        if len(pairs) >= 3:
            g = E.real('g', lo=0, lo_open=True, hi=1000, sample=3.5)
            grouped = formulas.formula([(g, [(counts[0] / g, atoms[0]), (counts[1] / g, atoms[1])])] + [p for p in pairs[2:]][::-1])
            same_structure(E, 'canonical.grouped', grouped.hill.structure, href.structure)
            split = formulas.formula([(counts[0] / 2, atoms[0])] + pairs[1:] + [(counts[0] / 2, atoms[0])])
            same_structure(E, 'canonical.split', split.hill.structure, href.structure)
        # Hill form follows the formula through later operations
        w = formulas.formula(pairs[:2])
        _ = w.hill
        n = E.real('n', lo=0, lo_open=True, hi=1000, sample=4.5)
        nw = n * w
        for a, c in nw.atoms.items():
            E.eq('hill_after_rmul.atoms[%s]' % a, nw.hill.atoms[a], c)
        w += formulas.formula(pairs[2:])
        hw = w.hill
        E.fact('hill_after_iadd.atom_set', set(hw.atoms) == set(w.atoms))
        for a, c in w.atoms.items():
            if a in hw.atoms:
                E.eq('hill_after_iadd.atoms[%s]' % a, hw.atoms[a], c)
        summed = formulas.formula(pairs[:1]) + formulas.formula(pairs[1:])
        same_structure(E, 'canonical.sum', summed.hill.structure, href.structure)
    return h


def _parsed_hill_case(text):
    """a formula written in Hill order and parsed from a string equals its own Hill form"""
    def h(E):
        from periodictable import formulas
        f = formulas.formula(text)
        E.fact('parsed_equals_hill[%s]' % text, f.hill == f, note='%r vs %r' % (f.hill.structure, f.structure))
        E.fact('hill_equals_parsed[%s]' % text, f == f.hill)
        E.fact('str_same[%s]' % text, str(f.hill) == str(f))
    return h


def _copied_case(E):
    """a formula that went through copy / deepcopy / pickle has equal atom counts, hence the same Hill form; adding the
    copy to the original merges equal atoms"""
    import copy
    import pickle
    from periodictable import formulas
    for text in ('CH4', 'Na{+}Cl{-}', 'Fe[56]{2+}O{2-}', 'C[13]D4', 'HDO', 'Fe{3+}2O{2-}3'):
        f = formulas.formula(text)
        for how, g in (('copy', copy.copy(f)), ('deepcopy', copy.deepcopy(f)), ('pickle', pickle.loads(pickle.dumps(f)))):
            E.fact('hill_of_%s[%s]' % (how, text), g.hill == f.hill and g.atoms == f.atoms, note='%r vs %r' % (g.hill.structure, f.hill.structure))
            both = (f + g).hill
            E.fact('hill_of_sum_with_%s[%s]' % (how, text), len(both.structure) == len(f.hill.structure) and both == (f + f).hill,
                   note=repr(both.structure)[:120])


def _parsed_private_case(E):
    """Hill-ordered strings parsed on a private table equal their own Hill form, made of that table's atoms"""
    from periodictable import formulas
    T = cm.private_table('c19', neutron=False)
    for text in ('CH4', 'C2H6O', 'H2O', 'Fe2O3', 'C[13]H4', 'HNaO', 'Fe[56]{2+}O{2-}'):
        f = formulas.formula(text, table=T)
        E.fact('parsed_equals_hill_private[%s]' % text, f.hill == f and f == f.hill, note='%r vs %r' % (f.hill.structure, f.structure))
        E.fact('hill_atoms_of_the_same_table[%s]' % text, all(any(x is a for a in f.atoms) for x in f.hill.atoms))


CH_MOD = '''
from periodictable import core, formulas


def _mk(sym, iso, q):
    el = core.Element(name='x' + sym.lower(), symbol=sym, Z=1, ions=(-4, -3, -2, -1, 1, 2, 3, 4), table='public')
    a = el
    if iso:
        a = el.add_isotope(iso)
    if q:
        a = a.ion[q]
    return a


def _key(a):
    s = a.symbol
    return (0 if s == 'C' else 1 if s == 'H' else 2, s, a.isotope if core.isisotope(a) else 0)


def _ok_symbol(s):
    return (len(s) == 1 or len(s) == 2) and 'A' <= s[0] <= 'Z' and (len(s) == 1 or 'a' <= s[1] <= 'z')


def pair_order(sym1: str, iso1: int, q1: int, sym2: str, iso2: int, q2: int) -> bool:
    """
    pre: _ok_symbol(sym1) and _ok_symbol(sym2)
    pre: 0 <= iso1 <= 300 and 0 <= iso2 <= 300
    pre: -4 <= q1 <= 4 and -4 <= q2 <= 4
    pre: (sym1, iso1, q1) != (sym2, iso2, q2)
    post: __return__
    """
    if sym1 == sym2:
        el = _mk(sym1, 0, 0)
        a = el
        b = el
        if iso1:
            a = el.add_isotope(iso1)
        if q1:
            a = a.ion[q1]
        if iso2:
            b = el.add_isotope(iso2)
        if q2:
            b = b.ion[q2]
    else:
        a, b = _mk(sym1, iso1, q1), _mk(sym2, iso2, q2)
    s1 = [x for _, x in formulas.formula({a: 1, b: 2}).structure]
    s2 = [x for _, x in formulas.formula({b: 2, a: 1}).structure]
    same = len(s1) == 2 and s1[0] is s2[0] and s1[1] is s2[1]
    documented = _key(s1[0]) <= _key(s1[1])
    return same and documented
'''


def _crosshair_order(case, tier, seed):
    from .. import ch
    import ast
    ns = {}
    exec(CH_MOD, ns)    # the same harness functions, run concretely for the replay

    def rp(argtext):
        args = ast.literal_eval('(' + argtext + ',)')
        ok = ns['pair_order'](*args)
        return (not ok), 'pair_order%r = %r' % (args, ok)
    return ch.crosshair_case(case.name, CH_MOD, dict(pair_order=rp), timeout_s=40 if tier == 'quick' else 240)


def cases(tier):
    th = tier == 'thorough'
    out = []
    sets = [('O', 'H', 'C'), ('Fe3', 'Fe2', 'O'), ('D', 'C', 'H', 'Cl'), ('Fe56', 'Fe', 'Fe54'), ('Ca', 'Co', 'C13', 'C'),
            ('Fe56_3', 'Fe56_2', 'Fe2'), ('T', 'H1', 'Hp', 'H'), ('C12', 'C9', 'C13', 'O'), ('Be10', 'Be9', 'Li11', 'Li6')]
    if th:
        sets += [('Hm', 'Hp', 'Dp', 'D'), ('He', 'H', 'Br', 'B'), ('O2m', 'O', 'C', 'Ca'), ('Fe', 'Fe2', 'Fe56', 'Fe56_2'),
                 ('Cl', 'C', 'Co', 'Ca'), ('C13', 'H1', 'T', 'D')]
    for s in sets:
        out.append(Case('canonical[%s]' % ','.join(s), _canonical_case(s), max_paths=64 if not th else 256, timeout_ms=20000))
    out.append(Case('canonical[O,H,C|private table]', _canonical_case(('O', 'H', 'C'), True), max_paths=64, timeout_ms=20000))
    out.append(Case('canonical[Fe56_3,Fe56_2,Fe2|private table]', _canonical_case(('Fe56_3', 'Fe56_2', 'Fe2'), True), max_paths=64, timeout_ms=20000))
    out.append(Case('parsed_hill_private_table', _parsed_private_case, max_paths=4))
    out.append(Case('hill_after_copy', _copied_case, max_paths=4))
    texts = ['Be[9]Be[10]2O', 'C[9]C[12]H4', 'CH4', 'C2H6O', 'CCaO3', 'H2O', 'C6H12O6', 'CHCl3', 'Fe2O3', 'C[13]H4', 'CD4', 'HNaO', 'ClNa', 'HBr']
    for t in texts:
        out.append(Case('parsed_hill[%s]' % t, _parsed_hill_case(t), max_paths=4))
    out.append(Case('pair_order_crosshair', None, custom=_crosshair_order, budget_s=900 if th else 300))
    return out
