"""C02 -- composition arithmetic: atoms, mass, charge and mass fractions are additive."""
from __future__ import annotations

from ..runner import Case
from .. import sym
from . import common as cm

META = dict(
    functions=['periodictable.formulas:formula', 'periodictable.formulas:Formula.__init__', 'periodictable.formulas:_count_atoms',
               'periodictable.formulas:_immutable', 'periodictable.formulas:Formula.__add__', 'periodictable.formulas:Formula.__iadd__',
               'periodictable.formulas:Formula.__rmul__', 'periodictable.formulas:Formula.mass', 'periodictable.formulas:Formula.charge',
               'periodictable.formulas:Formula.mass_fraction', 'periodictable.formulas:_convert_to_hill_notation',
               'periodictable.core:Ion.mass'],
    bounds=("structure shapes of depth <= 3, width <= 3 over {element, isotope, D, ion, isotope ion} incl. repeated atoms; "
            "all counts and multipliers symbolic reals >= 0; atom masses symbolic (private table); operator expressions of "
            "up to 3 applications of +, n*, +=; constructors: nested sequence, atom, {atom: count} mapping, formula(f), "
            "string skeleton with symbolic count literals"),
    outside="floating-point rounding of sums; deeper nesting / longer operator sequences",
    stubs="none (pure real arithmetic); value-dependent branches (n != 1, count == 1) are forked",
    assumptions=["floats as exact reals", "counts, multipliers >= 0", "atom masses > 0"],
)

SHAPES = {
    'leaf': ['X'],
    'pair': ['X', 'Yq'],
    'group': ['X', ['Y', 'D']],
    'repeat_depth': [['X', 'Yq'], ['Xi', ['D', 'X']]],
    'deep': [[['Xiq', 'Y']], 'H'],
    'three': ['Xq', 'Xi', 'X'],
    'wide_groups': [['X', 'Y', 'Z'], ['D'], ['Y', 'Xiq', 'H1']],
    'same_charge_ions': [['Xiq', 'Xq3'], 'Xjq', ['Yq', 'Xiq']],
}


def build(E, P, shape, tag):
    """nested (count, fragment) list with fresh symbolic counts; returns the structure"""
    n = [0]

    def rec(sh):
        out = []
        for it in sh:
            n[0] += 1
            c = E.real('%s_c%d' % (tag, n[0]), lo=0, hi=1000)
            if isinstance(it, list):
                out.append((c, rec(it)))
            else:
                out.append((c, P[it]))
        return out
    return rec(shape)


def oracle_mass(atom):
    from periodictable.constants import electron_mass
    b = cm.base_of(atom)
    return b.mass - getattr(atom, 'charge', 0) * electron_mass


def check_formula(E, name, f, want_pairs, check_fractions=True):
    """f: Formula; want_pairs: oracle (count, atom) list"""
    want = cm.merge_counts(want_pairs)
    got = f.atoms
    E.fact(name + '.atom_set', cm.same_atom_sets(got, want),
           note='%s vs %s' % (sorted(map(str, got)), sorted(map(str, want))))
    for a in want:
        if a in got:
            E.eq('%s.atoms[%s]' % (name, a), got[a], want[a])
    m = sum(c * oracle_mass(a) for c, a in want_pairs)
    q = sum(c * getattr(a, 'charge', 0) for c, a in want_pairs)
    E.eq(name + '.mass', f.mass, m)
    from periodictable.constants import avogadro_number
    E.eq(name + '.molecular_mass_grams', f.molecular_mass * avogadro_number, m)
    E.eq(name + '.charge', f.charge, q)
    if check_fractions:
        if m > 0:
            fr = f.mass_fraction
            E.fact(name + '.fraction_keys', cm.same_atom_sets(fr, want))
            tot = 0
            for a in want:
                if a in fr:
                    E.eq('%s.fraction[%s]' % (name, a), fr[a] * m, want[a] * oracle_mass(a))
                    tot = tot + fr[a]
            E.eq(name + '.fractions_sum', tot, 1)


def _prep(E, keys, tag='c02'):
    T, atoms, _ = cm.sym_pool(E, tag, keys, neutron=False, natural=False)
    return T, dict(zip(keys, atoms))


def keys_of(shape):
    out = []
    for it in shape:
        out += keys_of(it) if isinstance(it, list) else [it]
    return out


def _construct(shape_name, how):
    def h(E):
        from periodictable import formulas
        sh = SHAPES[shape_name]
        keys = sorted(set(keys_of(sh)))
        T, P = _prep(E, keys)
        st = build(E, P, sh, 'f')
        want = cm.flatten_counts(st)
        if how == 'sequence':
            f = formulas.formula(st)
        elif how == 'copy':
            f0 = formulas.formula(st, density=E.real('rho', lo=0, lo_open=True, hi=25), name='nm')
            f = formulas.formula(f0)
            E.fact('copy.same_structure', f.structure == f0.structure and f.name == 'nm')
            E.eq('copy.density', f.density, f0.density)
        elif how == 'mapping':
            d = cm.merge_counts(want)
            f = formulas.formula(dict(d))
        elif how == 'iterator':
            # any iterable of (count, fragment) pairs is accepted, one-shot iterators and generators included
            def it(seq):
                return ((c, it(fr) if isinstance(fr, list) else fr) for c, fr in seq)
            f = formulas.formula(it(st))
        elif how == 'Formula':
            f = formulas.Formula(structure=formulas._immutable(st))
        check_formula(E, how, f, want)
    return h


def _atom_case(E):
    from periodictable import formulas
    keys = ['X', 'Xi', 'Xq', 'Xiq', 'D']
    T, P = _prep(E, keys)
    for k in keys:
        f = formulas.formula(P[k])
        check_formula(E, 'atom[%s]' % k, f, [(1, P[k])])
    # every empty formula is a fresh object: extending one must not show up in the next
    for spelling in ('', None, ' '):
        acc = formulas.formula(spelling) if spelling is not None else formulas.formula()
        acc += formulas.formula([(E.real('acc_c', lo=0, lo_open=True, hi=1000), P['X'])])
        again = formulas.formula(spelling) if spelling is not None else formulas.formula()
        E.fact('empty_formula_is_fresh[%r]' % (spelling,), again.atoms == {} and again is not acc, note=repr(again.atoms))
    e = formulas.formula()
    E.fact('empty.atoms', e.atoms == {})
    E.fact('empty.mass', e.mass == 0)
    E.fact('empty_string.atoms', formulas.formula('').atoms == {})


def _string_case(desc):
    """string constructor: parse a rendered derivation tree (symbolic count literals) and check the composition it denotes"""
    def h(E):
        from periodictable import formulas
        import periodictable as pt
        from .. import symparse as sp
        from .c01 import build_tree
        sp.reset()
        tree = build_tree(E, desc, [0])
        text = tree.render()
        E.note(text)
        with sp.parsing(E):
            f = formulas.formula(text)
        want = tree.denote(pt.elements)
        check_formula(E, 'string', f, want)
        # the same text built twice gives equal, independent formulas
        with sp.parsing(E):
            g = formulas.formula(text)
        E.fact('string.reparse_independent', g is not f and g.structure == f.structure)
    return h


EXPRS = ['n*f', 'f+g', 'n*(f+g)', 'n*f+g', 'n*(k*f)', 'f+=g', '(f+=g)+n*h', 'n*f+k*g+h', 'f+f', 'n*(f+=g)', 'n*(k*(f+g))+h', '(f+g)+(g+h)']


def _ops(expr, sf, sg, sh_):
    def h(E):
        from periodictable import formulas
        keys = sorted(set(keys_of(SHAPES[sf]) + keys_of(SHAPES[sg]) + keys_of(SHAPES[sh_])))
        T, P = _prep(E, keys)
        stf, stg, sth = build(E, P, SHAPES[sf], 'f'), build(E, P, SHAPES[sg], 'g'), build(E, P, SHAPES[sh_], 'h')
        rho_f = E.real('rho_f', lo=0, lo_open=True, hi=25)
        f = formulas.formula(stf, density=rho_f, name='F')
        g = formulas.formula(stg, name='G')
        hh = formulas.formula(sth)
        wf, wg, wh = cm.flatten_counts(stf), cm.flatten_counts(stg), cm.flatten_counts(sth)
        n = E.real('n', lo=0, hi=1000)
        k = E.real('k', lo=0, hi=1000)
        snap = {id(x): (x.structure, x.density, x.name) for x in (f, g, hh)}
        sc = lambda m, w: [(m * c, a) for c, a in w]   # noqa: E731
        mutated = None
        if expr == 'n*f':
            r, want = n * f, sc(n, wf)
        elif expr == 'f+g':
            r, want = f + g, wf + wg
        elif expr == 'n*(f+g)':
            r, want = n * (f + g), sc(n, wf + wg)
        elif expr == 'n*f+g':
            r, want = n * f + g, sc(n, wf) + wg
        elif expr == 'n*(k*f)':
            r, want = n * (k * f), sc(n * k, wf)
        elif expr == 'f+f':
            r, want = f + f, wf + wf
        elif expr == 'f+=g':
            f2 = f
            f2 += g
            r, want, mutated = f2, wf + wg, f
            E.fact('iadd.same_object', f2 is f)
        elif expr == '(f+=g)+n*h':
            f2 = f
            f2 += g
            r, want, mutated = f2 + n * hh, wf + wg + sc(n, wh), f
            check_formula(E, 'iadd_left', f, wf + wg, check_fractions=False)
        elif expr == 'n*(f+=g)':
            f2 = f
            f2 += g
            r, want, mutated = n * f2, sc(n, wf + wg), f
        elif expr == 'n*f+k*g+h':
            r, want = n * f + k * g + hh, sc(n, wf) + sc(k, wg) + wh
        elif expr == 'n*(k*(f+g))+h':
            r, want = n * (k * (f + g)) + hh, sc(n * k, wf + wg) + wh
        elif expr == '(f+g)+(g+h)':
            r, want = (f + g) + (g + hh), wf + wg + wg + wh
        check_formula(E, expr, r, want)
        for nm, x in (('f', f), ('g', g), ('h', hh)):
            if x is mutated:
                continue
            st, de, na = snap[id(x)]
            E.fact('operand_unchanged.%s.structure' % nm, x.structure is st, note=str(x.structure)[:60])
            E.fact('operand_unchanged.%s.name' % nm, x.name is na)
            if de is None:
                E.fact('operand_unchanged.%s.density' % nm, x.density is None)
            else:
                E.eq('operand_unchanged.%s.density' % nm, x.density, de)
        E.fact('result_is_new', (r is not f or mutated is f) and r is not g and r is not hh)
    return h


def cases(tier):
    th = tier == 'thorough'
    mp = 64 if not th else 512
    out = []
    shapes = ['pair', 'group', 'repeat_depth', 'three', 'same_charge_ions'] if not th else list(SHAPES)
    for sn in shapes:
        for how in ('sequence', 'mapping', 'copy', 'Formula', 'iterator'):
            out.append(Case('construct[%s|%s]' % (sn, how), _construct(sn, how), max_paths=mp, timeout_ms=30000))
    out.append(Case('atoms_and_empty', _atom_case, max_paths=8))
    from .c01 import skeletons
    sk = skeletons('quick')
    pick = sk if th else [sk[i] for i in (11, 23, 42, 46, 47, 48, 52, 57, 61, 68, 69, 70, 74, 75, 78, 79, 82)]
    for name, d in pick:
        out.append(Case('string[%s]' % name, _string_case(d), max_paths=64 if not th else 256, timeout_ms=20000, nsamples=1))
    combos = [('pair', 'group', 'leaf'), ('repeat_depth', 'pair', 'group')]
    if th:
        combos += [('leaf', 'leaf', 'leaf'), ('deep', 'three', 'pair'), ('wide_groups', 'repeat_depth', 'deep')]
    for ci, (a, b, c) in enumerate(combos):
        for ex in EXPRS:
            if not th and ci == 1 and ex in ('f+f', 'n*(k*f)', 'f+g'):
                continue
            out.append(Case('ops[%s|%s,%s,%s]' % (ex, a, b, c), _ops(ex, a, b, c), max_paths=mp, timeout_ms=30000))
    return out
