"""C01 -- a formula string denotes exactly the composition its documented grammar says."""
from __future__ import annotations

import itertools
import random
import re
import time

import z3

from ..runner import Case
from .. import sym, rex, symparse as sp
from ..sym import HarnessError
from . import common as cm

DOC = '/repo/doc/sphinx/guide/formula_grammar.rst'

META = dict(
    functions=['periodictable.formulas:formula_grammar', 'periodictable.formulas:parse_formula', 'periodictable.formulas:formula',
               'periodictable.formulas:Formula.__init__', 'periodictable.formulas:_immutable', 'periodictable.formulas:_count_atoms',
               'periodictable.core:PeriodicTable.symbol', 'periodictable.core:IonSet.__getitem__', 'periodictable.core:Element.__getitem__'],
    bounds=("layer B: token regexes of the live grammar vs the documented BNF, unbounded strings (z3 sequence theory); "
            "layer A: derivation trees of the documented grammar with <= 3 groups, nesting depth <= 3, <= 3 elements per "
            "group, every tag combination, every separator spelling, density tag none/@c/@cn/@ci, optional leading counts; "
            "every count literal is a symbolic real (whole-number literals >= 1, decimal literals > 0); real pyparsing grammar "
            "and all parse actions run; public table and a private table; malformed strings: fixed list applied to each skeleton; "
            "layer C: token->value actions on all token strings of length <= 3 (z3 string encoding of the token, real closures replayed)"),
    outside=("lexical behaviour of pyparsing on arbitrary strings (whitespace skipping, look-aheads) beyond the separator/tag "
             "spellings of the skeletons; mixtures (C11); nesting of structure (C13)"),
    stubs="formulas.float / formulas.int patched as module globals: placeholder numeral text -> its symbol",
    assumptions=["count literals range over positive reals (whole literals over reals >= 1: a superset of the integers)",
                 "doc BNF informalities resolved from the guide's own prose: counts are optional; density tag takes suffix n or i"],
)

# ---------------------------------------------------------------- skeleton descriptors
ELEMS = [('H', [1, 2], [1, -1]), ('C', [12, 13], [4, -4]), ('Co', [59], [2, 3]), ('Ca', [40, 44], [2]), ('O', [16, 18], [-2]),
         ('Os', [188], [4]), ('N', [14, 15], [-3, 3]), ('Na', [23], [1]), ('Ni', [58, 62], [2]), ('S', [32, 34], [-2, 6]),
         ('Si', [28, 30], [4]), ('Fe', [54, 56], [2, 3]), ('D', [], [1]), ('T', [], []), ('U', [235, 238], [6]), ('Cl', [35, 37], [-1]),
         ('P', [31], [5]), ('B', [10, 11], [3]), ('Pb', [208], [2]), ('He', [3, 4], [])]


def A(sym_, iso=0, ion=0, ck=None, one=False):
    return ('a', sym_, iso, ion, ck, one)


def build_tree(E, d, ctr):
    k = d[0]

    def lit(ck, style=None):
        if ck is None:
            return None
        ctr[0] += 1
        return sp.Lit(E, 'c%d' % ctr[0], 'whole' if ck == 'w' else 'fract', style=('dot' if ck == 'd' else None))
    if k == 'a':
        return sp.AtomT(d[1], d[2], d[3], lit(d[4]), d[5])
    if k == 'i':
        c = lit(d[1])
        return sp.Impl([build_tree(E, a, ctr) for a in d[2]], c)
    if k == 'e':
        body = build_tree(E, d[2], ctr)
        c = lit(d[1])
        return sp.Expl(body, c, d[3] if len(d) > 3 else ('', ''))
    if k == 'c':
        return sp.Comp([build_tree(E, g, ctr) for g in d[1]], list(d[2]) if len(d) > 2 and d[2] is not None else None)
    if k == 'C':
        comp = build_tree(E, d[1], ctr)
        dens = lit(d[2])
        return sp.Compound(comp, dens, d[3])
    raise HarnessError('bad descriptor %r' % (d,))


def skeletons(tier, seed=0):
    """list of (name, descriptor)"""
    out = []
    # 1. single elements: every tag combination x count kind
    for (s, isos, ions) in [ELEMS[0], ELEMS[2], ELEMS[11], ELEMS[12]]:
        for iso in [0] + isos[:1]:
            for ion in [0] + ions[:1]:
                for ck in (None, 'w', 'f'):
                    out.append(('C', ('c', [('i', None, [A(s, iso, ion, ck)])]), None, ''))
    # explicit "1" in charge, dot-only decimal
    out.append(('C', ('c', [('i', None, [A('Na', 0, 1, 'w', True), A('Cl', 0, -1, 'd', True)])]), None, ''))
    # 2. implicit groups with mixed tags, prefix-ambiguous symbols
    out.append(('C', ('c', [('i', None, [A('Ca', 0, 0, None), A('C', 0, 0, None), A('O', 18, 0, 'w')])]), None, ''))
    out.append(('C', ('c', [('i', None, [A('C', 0, 0, 'w'), A('Co', 0, 2, 'f'), A('O', 0, -2, 'w')])]), None, ''))
    out.append(('C', ('c', [('i', 'w', [A('H', 0, 0, 'w'), A('O', 0, 0, None)])]), None, ''))
    out.append(('C', ('c', [('i', 'f', [A('H', 2, 1, 'f'), A('S', 0, 6, None), A('O', 16, -2, 'w')])]), None, ''))
    # 2b. the same element in one charge state as natural ion, isotope ion and a second isotope ion: three different atoms
    out.append(('C', ('c', [('i', None, [A('Fe', 56, 2, 'w'), A('Fe', 0, 2, 'f'), A('Fe', 54, 2, 'w'), A('O', 0, -2, 'w')])]), None, ''))
    out.append(('C', ('c', [('e', 'w', ('c', [('i', None, [A('H', 0, 1), A('D', 0, 1)])])), ('i', None, [A('H', 1, 1, 'f'), A('O', 18, -2, 'w'), A('O', 0, -2)])], [' ']), None, ''))
    # 3. separators
    for sep in ('', ' ', '+', ' + ', '  +'):
        out.append(('C', ('c', [('i', None, [A('Ca'), A('C'), A('O', 0, 0, 'w')]), ('i', 'w', [A('H', 0, 0, 'w'), A('O')])], [sep]), None, ''))
        out.append(('C', ('c', [('i', None, [A('Fe', 56, 3, 'f')]), ('e', 'w', ('c', [('i', None, [A('O', 0, -2)]), ('i', None, [A('H', 0, 1, 'w')])], [sep])),
                                ('i', None, [A('Fe', 0, 0, 'w')])], [sep, sep]), None, ''))
    # 3b. a counted implicit group FOLLOWED by another group: the count stops at the separator
    for sep in (' ', '+', ' + '):
        out.append(('C', ('c', [('i', 'w', [A('H', 0, 0, 'w')]), ('i', None, [A('O', 0, 0, 'w')])], [sep]), None, ''))
        out.append(('C', ('c', [('i', None, [A('Ca'), A('C'), A('O', 0, 0, 'w')]), ('i', 'w', [A('H', 0, 0, 'w'), A('O')]), ('i', None, [A('Fe')])], [sep, sep]), None, ''))
        out.append(('C', ('c', [('i', 'f', [A('Na', 0, 1), A('Cl', 0, -1)]), ('e', 'w', ('c', [('i', None, [A('H', 0, 0, 'w'), A('O')])])), ('i', 'w', [A('D', 0, 0, 'w')]),
                                ('i', None, [A('S', 0, -2, 'w')])], [sep, sep, sep]), None, ''))
    # 3c. an atom with implicit count 1, a space, then a counted group: the number belongs to the next group
    for sep in (' ', '  '):
        out.append(('C', ('c', [('i', None, [A('Ca'), A('C'), A('O')]), ('i', 'w', [A('H', 0, 0, 'w'), A('O')])], [sep]), None, ''))
        out.append(('C', ('c', [('i', None, [A('Fe', 0, 3)]), ('i', 'f', [A('O', 0, -2)])], [sep]), None, ''))
        out.append(('C', ('c', [('e', 'w', ('c', [('i', None, [A('Na'), A('Cl')]), ('i', 'w', [A('H', 0, 0, 'w'), A('O')])], [sep]))]), None, ''))
    # 3d. a parenthesised group, a space, then a counted group: the number belongs to the next group
    for sep in (' ', '  '):
        out.append(('C', ('c', [('e', None, ('c', [('i', None, [A('H', 0, 0, 'w'), A('O')])])), ('i', 'w', [A('Na'), A('Cl')])], [sep]), None, ''))
        out.append(('C', ('c', [('e', 'w', ('c', [('i', None, [A('C'), A('H', 0, 0, 'w')])])), ('i', 'f', [A('O', 0, -2)]), ('e', None, ('c', [('i', None, [A('D')])]), (' ', ' ')),
                                ('i', 'w', [A('Fe', 56, 3)])], [sep, sep, sep]), None, ''))
    # 4. nesting depth 2, 3 with repeated atoms at several depths
    out.append(('C', ('c', [('i', None, [A('H'), A('O')]), ('e', 'w', ('c', [('e', 'w', ('c', [('i', None, [A('C'), A('H', 0, 0, 'w')])])), ('i', None, [A('O')])]), (' ', ' ')),
                            ('i', None, [A('H')])], [' ', ' ']), None, ''))
    out.append(('C', ('c', [('e', 'f', ('c', [('e', None, ('c', [('e', 'w', ('c', [('i', 'w', [A('D', 0, 0, 'w'), A('O', 18, 0, None)])]))])), ('i', None, [A('D', 0, 1, 'f')])], ['+']))]), None, ''))
    out.append(('C', ('c', [('i', None, [A('Ca'), A('C'), A('O', 0, 0, 'w')]), ('e', 'w', ('c', [('i', 'w', [A('H'), A('O', 0, 0, 'f')])]))], ['+']), None, ''))
    # 5. density tags
    for dk, suf in ((None, ''), ('f', ''), ('w', ''), ('f', 'n'), ('w', 'n'), ('f', 'i')):
        out.append(('C', ('c', [('i', None, [A('Na'), A('Cl')])]), dk, suf))
        out.append(('C', ('c', [('i', 'w', [A('D', 0, 0, 'w'), A('O')]), ('i', None, [A('H', 1, 0, 'w'), A('O', 18, -2)])], [' + ']), dk, suf))
        out.append(('C', ('c', [('i', None, [A('Fe', 56, 2, 'w'), A('O', 0, -2, 'f')])]), dk, suf))
    if tier == 'thorough':
        rng = random.Random(1000 + seed)
        for n in range(260):
            out.append(random_skeleton(rng))
    named = []
    for i, d in enumerate(out):
        named.append(('sk%03d' % i, d))
    return named


def random_skeleton(rng, depth=0):
    def atom():
        s, isos, ions = rng.choice(ELEMS)
        iso = rng.choice([0, 0] + isos) if isos else 0
        ion = rng.choice([0, 0] + ions) if ions else 0
        return A(s, iso, ion, rng.choice([None, 'w', 'f', 'w']), rng.random() < 0.2)

    def impl():
        return ('i', rng.choice([None, None, 'w', 'f']), [atom() for _ in range(rng.randint(1, 3))])

    def comp(d):
        groups = []
        for _ in range(rng.randint(1, 3)):
            if d < 3 and rng.random() < 0.4:
                pad = (rng.choice(['', ' ']), rng.choice(['', ' ']))
                groups.append(('e', rng.choice([None, 'w', 'f']), comp(d + 1), pad))
            else:
                groups.append(impl())
        seps = [rng.choice(['', ' ', '+', ' + ']) for _ in groups[1:]]
        return ('c', groups, seps)
    dk = rng.choice([None, None, 'f', 'w'])
    suf = rng.choice(['', 'n', 'i']) if dk else ''
    return ('C', comp(1), dk, suf)


# ---------------------------------------------------------------- layer A harness
def _skeleton_case(desc, private):
    def h(E):
        from periodictable import formulas
        import periodictable as pt
        sp.reset()
        if private:
            keys = ['X', 'Y']   # unused pool; table has its real masses, a few made symbolic below
            T = cm.private_table('c01', neutron=False)
        else:
            T = pt.elements
        tree = build_tree(E, desc, [0])
        text = tree.render()
        E.note(text)
        with sp.parsing(E):
            f = formulas.formula(text, table=T) if private else formulas.formula(text)
        want_pairs = tree.denote(T)
        want = cm.merge_counts(want_pairs)
        got = f.atoms
        E.fact('atom_set', cm.same_atom_sets(got, want), note='%s: %s vs %s' % (text, sorted(map(str, got)), sorted(map(str, want))))
        for a in want:
            if a in got:
                E.eq('atoms[%s]' % a, got[a], want[a], note=text)
        q = sum(c * getattr(a, 'charge', 0) for c, a in want_pairs)
        E.eq('charge', f.charge, q, note=text)
        if private:
            E.fact('atoms_from_table', all(cm.base_of(a) is (T[a.number] if not hasattr(cm.base_of(a), 'isotope') else T[a.number][cm.base_of(a).isotope]) for a in got))
        if tree.density is not None:
            if tree.suffix == 'n':
                E.eq('natural_density_tag', f.natural_density, tree.density.value, note=text)
                # documented meaning of the n tag: density of the natural-abundance compound at the same cell volume
                from .c12 import natural_counterpart_mass
                from .c02 import oracle_mass
                nat = sum(c * natural_counterpart_mass(a) for c, a in want_pairs)
                act = sum(c * oracle_mass(a) for c, a in want_pairs)
                E.eq('natural_density_tag_meaning', f.density * nat, tree.density.value * act, note=text)
            else:
                E.eq('density_tag', f.density, tree.density.value, note=text)
        elif len(want) != 1:
            E.fact('no_density', f.density is None, note=text)
    return h


# ---------------------------------------------------------------- malformed strings (negative twins)
MALFORM_SUFFIX = ['H1.2.3', 'H[0]', 'H[01]', 'H[1.5]', 'H[]', 'H[999]', 'Fe{2}', 'Fe{+2}', 'Fe{0+}', 'Fe{+-}', 'Ne{+}', 'Fe{9+}',
                  'Xx', 'Zz2', 'J', 'h2', ')', '(', '(H2O', 'H2O)2', '[12]', '{2+}', 'H{+}{+}', 'H[1][2]', 'D[2]', 'H{+}[1]']
MALFORM_DENSITY = ['@', '@x', '@1x', '@1@2', '@-1', '@1nn', '@n']


def _malformed_case(skels):
    def custom(case, tier, seed):
        import periodictable as pt
        from periodictable import formulas
        from ..env import ConcEnv
        t0 = time.time()
        T = cm.private_table('c01m', neutron=False)
        n = 0
        viol = []
        samples = []
        for name, desc in skels:
            sp.reset()
            E = ConcEnv(values={}, rng=random.Random(name))
            tree = build_tree(E, desc, [0])
            base = tree.comp.render()
            dens = ('@' + tree.density.text + tree.suffix) if tree.density else ''
            variants = [base + ' ' + m + dens for m in MALFORM_SUFFIX] + [base + m + dens for m in (')', 'Zz')]
            variants += ['(' + base + dens, m_pre(base) + dens]
            if not dens:
                variants += [base + m for m in MALFORM_DENSITY]
            for table in (None, T):
                for s in variants:
                    n += 1
                    try:
                        r = formulas.formula(s, table=table)
                    except Exception:   # noqa: BLE001 - any exception is a rejection
                        continue
                    viol.append(dict(case=case.name, claim='malformed_rejected', values={'string': s, 'table': 'private' if table else 'public'},
                                     observed=[repr(r), 'exception expected'], how='concrete negative twin of skeleton %s' % name))
            if len(samples) < 3:
                samples.append(dict(skeleton=base + dens, malformed=variants[:4]))
        return dict(paths=1, claims=n, discharged=n - len(viol), queries=n, distinct=n, violations=viol[:5], samples=samples,
                    complete=True)
    return custom


def m_pre(base):
    # a lower-case start is never a symbol
    return 'x' + base


# ---------------------------------------------------------------- layer B: token languages
def _roles(grammar):
    items = rex.grammar_regexes(grammar)
    roles = {}

    def fm(p, s):
        return re.fullmatch(p, s) is not None
    for pat, sib, parents, el in items:
        if '[' in sib and fm(pat, '12'):
            key = 'isotope'
        elif '{' in sib:
            key = 'ion'
        elif '@' in sib:
            key = 'density_suffix'
        elif '%' in sib and fm(pat, 'wt'):
            key = 'weight_word'
        elif '%' in sib and fm(pat, 'vol'):
            key = 'volume_word'
        elif fm(pat, 'nm') and not fm(pat, 'kg'):
            key = 'length_unit'
        elif fm(pat, 'kg'):
            key = 'massvol_unit'
        elif 'MatchFirst' in parents[-1:] and fm(pat, '1.5'):
            key = 'fraction'
        elif 'MatchFirst' in parents[-1:] and fm(pat, '12'):
            key = 'whole'
        elif fm(pat, 'Fe') and fm(pat, 'H'):
            key = 'symbol'
        else:
            raise HarnessError('grammar shape changed: cannot assign a role to regex %r' % pat)
        if key in roles and roles[key][0] != pat:
            raise HarnessError('grammar shape changed: two regexes for role %s' % key)
        roles[key] = (pat, el)
    need = {'isotope', 'ion', 'fraction', 'whole', 'symbol', 'density_suffix', 'length_unit', 'massvol_unit', 'weight_word', 'volume_word'}
    if need - set(roles):
        raise HarnessError('grammar shape changed: missing token roles %s' % sorted(need - set(roles)))
    return roles


def _tokens_case(case, tier, seed):
    import periodictable as pt
    from periodictable import formulas
    g = formulas.formula_grammar(pt.elements)
    roles = _roles(g)
    rules = rex.read_doc_bnf(DOC)
    for r in ('number', 'fraction', 'symbol', 'isotope', 'ion', 'mass', 'volume', 'length', 'count'):
        if r not in rules:
            raise HarnessError('doc BNF lost rule %s' % r)
    doc = dict(
        isotope=rex.bnf_token_regex(rules, 'isotope', strip_quotes=('[', ']')),
        ion=rex.bnf_token_regex(rules, 'ion', strip_quotes=('{', '}')),
        whole=rex.bnf_token_regex(rules, 'number'),
        fraction=rex.bnf_token_regex(rules, 'fraction'),
        length_unit=rex.bnf_token_regex(rules, 'length'),
        massvol_unit='(' + rex.bnf_token_regex(rules, 'mass') + ')|(' + rex.bnf_token_regex(rules, 'volume') + ')',
        symbol=rex.bnf_token_regex(rules, 'symbol'),
    )
    syms = sorted(set([el.symbol for el in pt.elements if el.number >= 1] + ['D', 'T']))
    SYMS = z3.Union(*[z3.Re(z3.StringVal(s)) for s in syms])
    res = dict(paths=1, claims=0, discharged=0, queries=0, distinct=0, violations=[], inconclusive=[], samples=[], solver_s=0.0, complete=True)

    def record(name, verdict, witness, secs, code_pat, doc_pat, restrict=None):
        res['claims'] += 1
        res['queries'] += 1
        res['solver_s'] += secs
        if verdict == 'unsat':
            res['discharged'] += 1
            res['distinct'] += 1
            if len(res['samples']) < 4:
                res['samples'].append(dict(claim=name, code_regex=code_pat, doc_regex=doc_pat, verdict='unsat', seconds=round(secs, 4)))
        elif verdict == 'sat':
            # replay the witness against the real regex objects (python re) and, where it makes sense, formula()
            in_code = re.fullmatch(code_pat, witness) is not None
            in_doc = re.fullmatch(doc_pat, witness) is not None
            if in_code != in_doc:
                demo = None
                tmpl = {'isotope': 'H[%s]', 'ion': 'Fe{%s}', 'whole': 'H%s', 'fraction': 'H%s', 'symbol': '%s'}.get(name.split('.')[0])
                if tmpl:
                    try:
                        demo = repr(formulas.formula(tmpl % witness))
                    except Exception as e:   # noqa: BLE001
                        demo = 'raises %s' % type(e).__name__
                res['violations'].append(dict(case=case.name, claim=name, values={'witness': witness},
                                              observed=['code regex %r %s it' % (code_pat, 'accepts' if in_code else 'rejects'),
                                                        'documented %r %s it; formula(%r) -> %s' % (doc_pat, 'accepts' if in_doc else 'rejects', (tmpl or '%s') % witness, demo)],
                                              how='z3 regex witness replayed with python re on the live pattern'))
            else:
                res['inconclusive'].append(dict(case=case.name, claim=name, why='witness %r did not reproduce with python re' % witness))
        else:
            res['inconclusive'].append(dict(case=case.name, claim=name, why='solver unknown'))
    for role in ('isotope', 'ion', 'whole', 'fraction', 'length_unit', 'massvol_unit'):
        cp = roles[role][0]
        v, w, dt = rex.compare(rex.to_z3(cp), rex.to_z3(doc[role]))
        record(role + '.language_equals_doc', v, w, dt, cp, doc[role])
    cp = roles['symbol'][0]
    v, w, dt = rex.compare(rex.to_z3(cp), rex.to_z3(doc['symbol']), restrict=SYMS)
    record('symbol.agrees_on_table_symbols', v, w, dt, cp, doc['symbol'])
    # every table symbol is in the code language (so it can be named), and nothing longer than the doc allows
    v, w, dt = rex.included(SYMS, rex.to_z3(cp))
    record('symbol.all_table_symbols_accepted', v, w, dt, cp, '|'.join(syms))
    v, w, dt = rex.included(rex.to_z3(cp), rex.to_z3(doc['symbol']))
    record('symbol.code_within_doc', v, w, dt, cp, doc['symbol'])
    # density suffix and percent words (doc prose: wt%, vol%, mass%, suffix n / i)
    cp = roles['density_suffix'][0]
    v, w, dt = rex.compare(rex.to_z3(cp), rex.to_z3('n|i'))
    record('density_suffix.is_n_or_i', v, w, dt, cp, 'n|i')
    for word, need_ in (('weight_word', 'wt'), ('volume_word', 'vol')):
        cp = roles[word][0]
        v, w, dt = rex.included(rex.to_z3(need_), rex.to_z3(cp))
        record(word + '.accepts_documented', v, w, dt, cp, need_)
    # token malformations are outside the token languages
    bad = dict(isotope=['0', '01', '1.5', '', '-1', '1e2', ' 1'], ion=['2', '+2', '0+', '', '+-', '02+', '2 +'],
               whole=['0', '01', '1e3', '-1'], fraction=['1.2.3', '1e-5', '1', '.5.', '01.5', '-0.5'])
    for role, lst in bad.items():
        cp = roles[role][0]
        A_ = rex.to_z3(cp)
        for b in lst:
            s = z3.Solver()
            s.add(z3.InRe(z3.StringVal(b), A_))
            t0 = time.time()
            r = s.check()
            # membership of a malformed token would be a widening: witness is the token itself
            record('%s.rejects[%r]' % (role, b), 'unsat' if r == z3.unsat else ('sat' if r == z3.sat else 'unknown'), b, time.time() - t0,
                   cp, doc.get(role, ''))
    return res


def _contains(e, target, depth=4):
    if e is target:
        return True
    if depth == 0:
        return False
    kids = list(getattr(e, 'exprs', [])) or ([e.expr] if getattr(e, 'expr', None) is not None else [])
    return any(_contains(k, target, depth - 1) for k in kids)


def action_of(g, el):
    """the token action: it may sit on the Regex itself or on the enclosing Opt"""
    for e, parents in rex.walk_grammar(g):
        if e is el or (getattr(e, 'expr', None) is not None and type(e).__name__ == 'Opt' and _contains(e, el)):
            for a in getattr(e, 'parseAction', []):
                o = rex.original_action(a)
                if o is not None:
                    return o
    return None


# ---------------------------------------------------------------- layer C: token -> value actions
def _token_actions_case(case, tier, seed):
    """The real token actions (closures of the live grammar) against their documented meaning, for every
    token string of length <= L in the token language.  The token is a z3 string; the documented value is
    defined over it with str.to_int; candidate strings are produced by the solver (one query per distinct
    value class, blocking clauses), and each is pushed through the real closure."""
    import periodictable as pt
    from periodictable import formulas
    g = formulas.formula_grammar(pt.elements)
    roles = _roles(g)
    L = 3 if tier == 'quick' else 4
    res = dict(paths=1, claims=0, discharged=0, queries=0, distinct=0, violations=[], inconclusive=[], samples=[], solver_s=0.0, complete=True)

    def action_of_(el):
        return action_of(g, el)

    from fractions import Fraction

    def spec_iso(tok): return int(tok)

    def spec_ion(tok):
        n = int(tok[:-1]) if len(tok) > 1 else 1
        return n if tok[-1] == '+' else -n

    def spec_whole(tok): return int(tok)

    def spec_fract(tok):
        ip, _, fp = tok.partition('.')
        return Fraction(int(ip) if ip else 0) + (Fraction(int(fp), 10 ** len(fp)) if fp else 0)
    specs = dict(isotope=spec_iso, ion=spec_ion, whole=spec_whole, fraction=spec_fract)
    for role in ('isotope', 'ion', 'whole', 'fraction'):
        pat, el = roles[role]
        act = action_of_(el)
        if act is None:
            raise HarnessError('no parse action found for %s token' % role)
        A_ = rex.to_z3(pat)
        x = z3.String('tok')
        s = z3.Solver()
        s.set('timeout', 20000)
        s.add(z3.InRe(x, A_), z3.Length(x) <= L)
        count = 0
        t0 = time.time()
        # enumerate the whole bounded token language by blocking clauses (finite: solver says unsat at the end)
        while True:
            r = s.check()
            res['queries'] += 1
            if r != z3.sat:
                break
            tok = s.model()[x].as_string()
            s.add(x != z3.StringVal(tok))
            count += 1
            res['claims'] += 1
            try:
                got = act('', 0, [tok])
            except Exception as e:   # noqa: BLE001
                got = 'raises %s' % type(e).__name__
            if role == 'fraction' and not any(ch.isdigit() for ch in tok):
                # "." has no documented value; the action must not turn it into a number silently
                if isinstance(got, str):
                    res['discharged'] += 1
                else:
                    res['violations'].append(dict(case=case.name, claim='fraction.action_value', values={'token': tok},
                                                  observed=[repr(got), 'no value'], how='degenerate token'))
                continue
            want = specs[role](tok)
            ok = (not isinstance(got, str)) and Fraction(got) == Fraction(want) if role != 'fraction' else \
                (not isinstance(got, str)) and abs(Fraction(got) - want) <= Fraction(1, 10 ** 12) * max(1, abs(want))
            if role == 'isotope':
                ok = ok and got >= 1
            if role == 'ion':
                ok = ok and got != 0
            if ok:
                res['discharged'] += 1
            else:
                res['violations'].append(dict(case=case.name, claim='%s.action_value' % role, values={'token': tok},
                                              observed=[repr(got), repr(want)], how='token from solver enumeration of the live regex; real closure called'))
                if len(res['violations']) > 3:
                    break
            if count > 30000:
                res['inconclusive'].append(dict(case=case.name, claim=role + '.action_value', why='token language too large'))
                break
        res['solver_s'] += time.time() - t0
        if r == z3.unknown:
            res['inconclusive'].append(dict(case=case.name, claim=role + '.action_value', why='solver unknown while enumerating'))
        res['distinct'] += count
        res['samples'].append(dict(role=role, regex=pat, tokens_of_length_le=L, tokens=count, exhaustive_by_solver=(r == z3.unsat)))
    # absent-tag defaults: the Optional(...) defaults denote isotope 0, charge 0, count 1
    f = formulas.formula('Fe')
    res['claims'] += 1
    at = list(f.atoms.items())
    if at == [(pt.Fe, 1)]:
        res['discharged'] += 1
    else:
        res['violations'].append(dict(case=case.name, claim='absent_tag_defaults', values={'string': 'Fe'}, observed=[repr(at), '[(Fe, 1)]'], how='concrete'))
    return res


def cases(tier):
    th = tier == 'thorough'
    out = []
    sk = skeletons(tier)
    for name, d in sk:
        for private in ((False, True) if th else (False,)):
            out.append(Case('parse[%s|%s]' % (name, 'private' if private else 'public'), _skeleton_case(d, private),
                            max_paths=64 if not th else 256, timeout_ms=20000, nsamples=1))
    if not th:
        for name, d in sk[::6]:
            out.append(Case('parse[%s|private]' % name, _skeleton_case(d, True), max_paths=64, timeout_ms=20000, nsamples=1))
    out.append(Case('malformed_rejected', None, custom=_malformed_case(sk if th else sk[::3])))
    out.append(Case('token_languages', None, custom=_tokens_case))
    out.append(Case('token_actions', None, custom=_token_actions_case, budget_s=1700 if th else 200))
    out.append(Case('token_actions_crosshair', None, custom=_crosshair_tokens, budget_s=700 if th else 230))
    return out


CH_MOD = '''
import periodictable as pt
from periodictable import formulas
from pverif.props.c01 import _roles, action_of
_g = formulas.formula_grammar(pt.elements)
_R = _roles(_g)
ION = action_of(_g, _R['ion'][1])
ISO = action_of(_g, _R['isotope'][1])
WHOLE = action_of(_g, _R['whole'][1])


def ion_value(tok: str) -> int:
    """
    pre: 1 <= len(tok) <= LEN
    pre: tok[-1] in '+-'
    pre: all(c in '0123456789' for c in tok[:-1])
    pre: len(tok) == 1 or tok[0] != '0'
    post: __return__ == (int(tok[:-1]) if len(tok) > 1 else 1) * (1 if tok[-1] == '+' else -1)
    post: __return__ != 0
    """
    return ION('', 0, [tok])


def iso_value(tok: str) -> int:
    """
    pre: 1 <= len(tok) <= LEN
    pre: all(c in '0123456789' for c in tok)
    pre: tok[0] != '0'
    post: __return__ == int(tok)
    post: __return__ >= 1
    """
    return ISO('', 0, [tok])


def whole_value(tok: str) -> int:
    """
    pre: 1 <= len(tok) <= LEN
    pre: all(c in '0123456789' for c in tok)
    pre: tok[0] != '0'
    post: __return__ == int(tok)
    """
    return WHOLE('', 0, [tok])
'''


def _crosshair_tokens(case, tier, seed):
    from .. import ch
    import ast
    import periodictable as pt
    from periodictable import formulas
    g = formulas.formula_grammar(pt.elements)
    roles = _roles(g)
    L = 3

    def rp(role, spec):
        act = action_of(g, roles[role][1])

        def f(argtext):
            tok = ast.literal_eval(argtext)
            if re.fullmatch(roles[role][0], tok) is None:
                return False, 'token %r not in the live token language' % tok
            try:
                got = act('', 0, [tok])
            except Exception as e:   # noqa: BLE001
                return True, 'raises %s' % type(e).__name__
            return got != spec(tok), 'action(%r) = %r, documented %r' % (tok, got, spec(tok))
        return f

    def ion_spec(t):
        return (int(t[:-1]) if len(t) > 1 else 1) * (1 if t[-1] == '+' else -1)
    return ch.crosshair_case(case.name, CH_MOD.replace('LEN', str(L)),
                             dict(ion_value=rp('ion', ion_spec), iso_value=rp('isotope', int), whole_value=rp('whole', int)),
                             timeout_s=60 if tier == 'quick' else 150)
