"""C13 -- printing a formula and parsing it back gives the same formula."""
from __future__ import annotations

import re
import time

import z3

from ..runner import Case
from .. import sym, rex, symparse as sp
from ..sym import HarnessError
from . import common as cm
from .c01 import _roles, build_tree, A

META = dict(
    functions=['periodictable.formulas:_str_atoms', 'periodictable.formulas:Formula.__str__', 'periodictable.formulas:Formula.__repr__',
               'periodictable.formulas:formula_grammar', 'periodictable.core:Ion.__str__', 'periodictable.core:Isotope.__str__'],
    bounds=("(B) the language of the printed count ('%g' of a positive finite float, written once from C's definition) is "
            "checked for inclusion in the live count language over unbounded strings; (C) atom tag printing composed with the "
            "live isotope/ion token actions for symbolic isotope number in [1,999] and charge in [-9,9] (CrossHair); (A, concolic) "
            "structures of depth <= 3, width <= 3 over elements, isotopes, D, T, ions, isotope ions with symbolic counts "
            "(each printed through a concrete shadow value and mapped back to the same symbol on parsing), produced by the "
            "parser, by + and n*, and by the mixture constructors"),
    outside="rounding of a count to six significant digits is checked numerically in replay mode only (tolerance 1e-5); structures deeper than 3",
    stubs="formulas.float/int patched (placeholder -> symbol); SymReal.__float__ returns the shadow value used only by '%g'",
    assumptions=["formulas never contain a (1, group) fragment (checked as a path fact for the three producers)"],
)

# ---------------------------------------------------------------- (a) printed-count language inside the count language
# Models of the language of a printed count.  The live printer is sampled (encoding validation) to select
# the first model that contains all of its outputs; the solver then decides inclusion in the live count language.
G_FIXED_INT = '[1-9][0-9]{0,5}'
G_FIXED_DEC = '[1-9][0-9]{0,4}[.][0-9]{0,4}[1-9]'
G_FIXED_SMALL = '0[.]0{0,3}[1-9]([0-9]{0,4}[1-9])?'
G_EXP = '[1-9]([.][0-9]{0,4}[1-9])?e([+](0[6-9]|[1-9][0-9]+)|-(0[5-9]|[1-9][0-9]+))'
PRINT_MODELS = [
    ('%g', [('fixed_integer', G_FIXED_INT), ('fixed_decimal', G_FIXED_DEC), ('fixed_small', G_FIXED_SMALL), ('exponent', G_EXP)]),
    ('%g with the exponent expanded to plain decimal', [('integer', '[1-9][0-9]*'), ('decimal', G_FIXED_DEC),
                                                        ('small', '0[.]0*[1-9]([0-9]{0,4}[1-9])?')]),
]


def _printed_count(c):
    from periodictable import formulas
    import periodictable as pt
    s = str(formulas.formula([(c, pt.H)]))
    return s[1:] if s.startswith('H') else None


def _g_language_case(case, tier, seed):
    import periodictable as pt
    from periodictable import formulas
    import random
    g = formulas.formula_grammar(pt.elements)
    roles = _roles(g)
    count_re = '(%s)|(%s)' % (roles['fraction'][0], roles['whole'][0])
    res = dict(paths=1, claims=0, discharged=0, queries=0, distinct=0, violations=[], inconclusive=[], samples=[], solver_s=0.0, complete=True)
    rng = random.Random(seed)
    outs = []
    for i in range(3000):
        c = 10 ** rng.uniform(-12, 15) * rng.choice([1, 1, 1, rng.random()])
        if rng.random() < 0.3:
            c = float(round(c, rng.randint(0, 6))) or 1.0
        if c == 1:
            continue
        outs.append((c, _printed_count(c)))
    model = None
    for name, branches in PRINT_MODELS:
        full = '|'.join('(%s)' % p for _, p in branches)
        if all(o is not None and re.fullmatch(full, o) for _, o in outs):
            model = (name, branches)
            break
    if model is None:
        bad = [(c, o) for c, o in outs if o is None or not any(re.fullmatch('|'.join('(%s)' % p for _, p in br), o) for _, br in PRINT_MODELS)][:3]
        res['inconclusive'].append(dict(case=case.name, claim='printed_count_language', why='no model of the count printer fits its sampled outputs, e.g. %r' % (bad,)))
        res['claims'] = 1
        return res
    CNT = rex.to_z3(count_re)
    for nm, pat in model[1]:
        res['claims'] += 1
        res['queries'] += 1
        v, w, dt = rex.included(rex.to_z3(pat), CNT)
        res['solver_s'] += dt
        cname = 'printed_count_in_count_language[%s]' % nm
        if v == 'unsat':
            res['discharged'] += 1
            res['distinct'] += 1
            res['samples'].append(dict(claim=cname, printer_model=model[0], printed=pat, count_language=count_re, verdict='unsat', seconds=round(dt, 4)))
        elif v == 'sat':
            # replay: a float that prints as the witness, put in a formula, printed and parsed
            try:
                c = float(w)
            except ValueError:
                c = None
            obs = None
            if c is not None and c > 0 and _printed_count(c) == w:
                s = str(formulas.formula([(c, pt.H)]))
                try:
                    back = formulas.formula(s)
                    cb = list(back.atoms.values())[0] if back.atoms else None
                    ok = cb is not None and abs(cb - c) <= 1e-5 * c and list(back.atoms) == [pt.H]
                    obs = 'str -> %r parses to %r' % (s, back.atoms)
                except Exception as e:   # noqa: BLE001
                    ok = False
                    obs = 'str(formula([(%r, H)])) = %r does not parse: %s' % (c, s, type(e).__name__)
                if not ok:
                    res['violations'].append(dict(case=case.name, claim=cname, values={'count': c, 'printed': w},
                                                  observed=[obs, 'count language %s' % count_re], how='z3 regex witness replayed through str() and formula()'))
                    continue
            res['inconclusive'].append(dict(case=case.name, claim=cname, why='witness %r did not replay' % w))
        else:
            res['inconclusive'].append(dict(case=case.name, claim=cname, why='solver unknown'))
    return res


# ---------------------------------------------------------------- (b) tag printing o token actions (CrossHair)
CH_MOD = '''
import re
import periodictable as pt
from periodictable import formulas, core
from pverif.props.c01 import _roles, action_of
_g = formulas.formula_grammar(pt.elements)
_R = _roles(_g)
ION = action_of(_g, _R['ion'][1])
ISO = action_of(_g, _R['isotope'][1])


def _tags(s):
    iso = s[s.index('[') + 1:s.index(']')] if '[' in s else None
    ion = s[s.index('{') + 1:s.index('}')] if '{' in s else None
    return iso, ion


def ion_print_parse(q: int) -> int:
    """
    pre: -9 <= q <= 9
    pre: q != 0
    post: __return__ == q
    """
    atom = core.Ion(pt.Fe, q)
    s = str(formulas.Formula(structure=((1, atom),), density=1.0))
    iso, ion = _tags(s)
    return ION('', 0, [ion])


def isotope_print_parse(n: int) -> int:
    """
    pre: 1 <= n <= 999
    post: __return__ == n
    """
    atom = core.Isotope(pt.Fe, n)
    s = str(formulas.Formula(structure=((1, atom),), density=1.0))
    iso, ion = _tags(s)
    return ISO('', 0, [iso])


def isotope_ion_print_parse(n: int, q: int) -> int:
    """
    pre: 1 <= n <= 999
    pre: -9 <= q <= 9 and q != 0
    post: __return__ == 1000 * q + n
    """
    atom = core.Ion(core.Isotope(pt.Fe, n), q)
    s = str(formulas.Formula(structure=((1, atom),), density=1.0))
    iso, ion = _tags(s)
    return 1000 * ION('', 0, [ion]) + ISO('', 0, [iso])
'''


def _crosshair_tags(case, tier, seed):
    from .. import ch
    import ast
    import periodictable as pt
    from periodictable import formulas, core

    def mk(fn):
        def f(argtext):
            args = ast.literal_eval('(' + argtext + ',)')
            if fn == 'ion':
                atom, want = core.Ion(pt.Fe, args[0]), args[0]
            elif fn == 'iso':
                atom, want = core.Isotope(pt.Fe, args[0]), args[0]
            else:
                atom, want = core.Ion(core.Isotope(pt.Fe, args[0]), args[1]), args
            s = str(formulas.Formula(structure=((1, atom),), density=1.0))
            return True, 'prints %r' % s   # CrossHair's counterexample is taken as is; the printed text is shown
        return f
    return ch.crosshair_case(case.name, CH_MOD, dict(ion_print_parse=mk('ion'), isotope_print_parse=mk('iso'),
                                                     isotope_ion_print_parse=mk('both')), timeout_s=60 if tier == 'quick' else 150)


# ---------------------------------------------------------------- (c) concolic round trip of structures
def same_structure(E, name, got, want, path='s'):
    """term-wise comparison of two nested (count, fragment) structures"""
    from periodictable.core import isatom
    E.fact('%s.len[%s]' % (name, path), len(got) == len(want), note='%r vs %r' % (_shape(got), _shape(want)))
    if len(got) != len(want):
        return
    for i, ((cg, fg), (cw, fw)) in enumerate(zip(got, want)):
        p = '%s.%d' % (path, i)
        E.eq('%s.count[%s]' % (name, p), cg, cw)
        if isatom(fw) or isatom(fg):
            E.fact('%s.atom[%s]' % (name, p), fg is fw, note='%r vs %r' % (fg, fw))
        else:
            same_structure(E, name, fg, fw, p)


def _shape(st):
    from periodictable.core import isatom
    return [(repr(f) if isatom(f) else _shape(f)) for c, f in st]


def no_unit_groups(st):
    from periodictable.core import isatom
    for c, f in st:
        if not isatom(f):
            if not isinstance(c, sym.SymReal) and c == 1:
                return False
            if not no_unit_groups(f):
                return False
    return True


def roundtrip(E, name, f, table=None):
    from periodictable import formulas
    with sp.printing(E):
        s = str(f)
        r = repr(f)
    E.note(s)
    E.fact(name + '.repr', r == "formula('" + s + "')", note=r)
    try:
        with sp.parsing(E):
            g = formulas.formula(s, table=table) if table is not None else formulas.formula(s)
    except HarnessError:
        raise
    except Exception as e:   # noqa: BLE001
        E.fact(name + '.parses', False, note='%r -> %s: %s' % (s, type(e).__name__, e))
        return
    same_structure(E, name, g.structure, f.structure)


SMALL = [2.5, 3.25, 4.5, 6.75, 7.125, 9.5, 11.25, 12.5, 13.75, 17.5, 19.25, 21.5]


def _parsed_case(desc):
    def h(E):
        from periodictable import formulas
        sp.reset()
        tree = build_tree(E, desc, [0])
        text = tree.render()
        with sp.parsing(E):
            f = formulas.formula(text)
        E.fact('no_unit_group', no_unit_groups(f.structure))
        roundtrip(E, 'parsed', f)
    return h


def _arith_case(kind):
    def h(E):
        from periodictable import formulas
        import periodictable as pt
        sp.reset()
        cs = [E.real('c%d' % i, lo=0, lo_open=True, hi=1000, sample=SMALL[i]) for i in range(6)]
        n = E.real('n', lo=0, lo_open=True, hi=1000, sample=3.5)
        k = E.real('k', lo=0, lo_open=True, hi=1000, sample=5.5)
        Fe, O, H, D, T = pt.Fe, pt.O, pt.H, pt.D, pt.T
        f1 = formulas.formula([(cs[0], Fe[56].ion[3]), (cs[1], O.ion[-2])])
        f2 = formulas.formula([(cs[2], H), (cs[3], D), (cs[4], T)])
        f3 = formulas.formula([(cs[5], pt.C[13])])
        if kind == 'n*f':
            f = n * f1
        elif kind == 'n*single':
            f = n * f3
        elif kind == 'f+g':
            f = f1 + f2
        elif kind == 'n*(f+k*g)':
            f = n * (f1 + k * f2)
        elif kind == 'n*f+k*(g+h)':
            f = n * f1 + k * (f2 + f3)
        elif kind == 'ions_of_D':
            f = formulas.formula([(cs[0], D.ion[1]), (cs[1], O[18].ion[-2]), (cs[2], H.ion[1]), (cs[3], pt.H[1].ion[1])])
        elif kind == 'named':
            f = formulas.formula([(cs[0], Fe), (cs[1], O)], name='rust')
            E.fact('named.str', str(f) == 'rust')
            E.fact('named.repr', repr(f) == "formula('rust')")
            return
        E.fact('no_unit_group', no_unit_groups(f.structure))
        roundtrip(E, kind, f)
    return h


def _mixture_case(kind):
    def h(E):
        from periodictable import formulas
        import periodictable as pt
        sp.reset()
        q1 = E.real('q1', lo=0, lo_open=True, hi=1000, sample=2.5)
        q2 = E.real('q2', lo=0, lo_open=True, hi=1000, sample=7.25)
        c1 = E.real('c1', lo=0, lo_open=True, hi=1000, sample=3.5)
        a = formulas.formula([(c1, pt.Na), (1, pt.Cl)], density=2.16)
        b = formulas.formula('H2O', density=1.0)
        d = formulas.formula('D2O', natural_density=1.0)
        if kind == 'weight':
            f = formulas.mix_by_weight(a, q1, b, q2)
        elif kind == 'volume':
            f = formulas.mix_by_volume(a, q1, b, q2)
        else:
            f = formulas.mix_by_volume(formulas.mix_by_weight(a, q1, b, q2), q1, d, q2)
        E.fact('no_unit_group', no_unit_groups(f.structure))
        roundtrip(E, 'mix_' + kind, f)
    return h


def _magnitude_case(E):
    """counts of any magnitude (concrete replay of the property's quantifier: the printed text parses back
    to the same count within six significant digits)"""
    from periodictable import formulas
    import periodictable as pt
    e = E.real('log10_count', lo=-9, hi=12)
    if E.symbolic:
        return        # the solver side of this claim is case g_language (regex inclusion)
    c = 10.0 ** e
    f = formulas.formula([(c, pt.Fe), (2 * c, [(1, pt.O), (c, pt.H)])])
    s = str(f)
    try:
        g = formulas.formula(s)
    except Exception as ex:   # noqa: BLE001
        E.fact('magnitude.parses', False, note='%r: %s' % (s, type(ex).__name__))
        return
    same_structure(E, 'magnitude', g.structure, f.structure)


def _boundary_counts_case(case, tier, seed):
    """ground: counts at the printer's notation thresholds (six-digit rounding across powers of ten, the 1e-4 and
    1e6 switches) print to a string that parses back to the same count within six significant digits"""
    import periodictable as pt
    from periodictable import formulas
    res = dict(paths=1, claims=0, discharged=0, queries=0, distinct=0, violations=[], inconclusive=[], samples=[], solver_s=0.0, complete=True)
    counts = []
    for k in range(-9, 13):
        for d in (0.0, 1e-9, 4.9e-7, 5.1e-7, 3e-6, -1e-9, -4.9e-7, -5.1e-7, -3e-6):
            counts.append(10.0 ** k * (1 + d))
    counts += [0.5, 0.15, 0.999999, 0.9999996, 1.0000004, 2.0, 1.5, 123456.5, 1234567.0, 0.000123456789, 99999.95, 999999.5, 999999.49]
    for c in counts:
        if c == 1:
            continue
        res['claims'] += 1
        f = formulas.formula([(c, pt.Fe), (2, [(c, pt.O), (1, pt.H)])])
        s = str(f)
        try:
            g = formulas.formula(s)
            got = [g.structure[0][0], g.structure[1][1][0][0]] if len(g.structure) == 2 and g.structure[0][1] is pt.Fe else None
            ok = got is not None and all(abs(x - c) <= 1e-5 * c for x in got) and repr(f) == "formula('%s')" % s
            obs = 'parses to %r' % (g.structure,)
        except Exception as e:   # noqa: BLE001
            ok, obs = False, '%s: %s' % (type(e).__name__, e)
        if ok:
            res['discharged'] += 1
        elif len(res['violations']) < 5:
            res['violations'].append(dict(case=case.name, claim='boundary_count_roundtrip', values={'count': repr(c)}, observed=[s, obs],
                                          how='concrete count at a notation threshold'))
    # formulas whose printing or re-parsing takes a special route: a counted group holding a single atom, a lone ion or
    # isotope of an element without tabulated density (parsed with an explicit density), single isotopes
    for text in ('2Fe', '3H2', '2Cl{-}2', '(Fe2)3O', '(3Fe)2', 'Ra{2+}@5', 'Rn[222]@0.01', 'At{-}@1', 'Fr{+}Cl{-}', 'Fe[56]', '(O[17])2', '2D{+}'):
        res['claims'] += 1
        try:
            f = formulas.formula(text)
            s = str(f)
            g = formulas.formula(s)
            ok = dict(g.atoms) == dict(f.atoms) and str(g) == s and repr(f) == "formula('%s')" % s
            obs = '%r -> %r -> %r' % (text, s, dict(g.atoms))
        except Exception as e:   # noqa: BLE001
            ok, obs = False, '%r: %s: %s' % (text, type(e).__name__, e)
        if ok:
            res['discharged'] += 1
        elif len(res['violations']) < 5:
            res['violations'].append(dict(case=case.name, claim='special_route_roundtrip', values={'formula': text}, observed=[obs, 'same atoms after printing and parsing'],
                                          how='concrete'))
    res['queries'] = res['distinct'] = res['claims']
    res['samples'] = [dict(counts=len(counts))]
    return res


def cases(tier):
    th = tier == 'thorough'
    mp = 256 if not th else 768
    out = []
    out.append(Case('g_language', None, custom=_g_language_case))
    out.append(Case('tags_crosshair', None, custom=_crosshair_tags, budget_s=700 if th else 230))
    descs = [
        ('C', ('c', [('i', None, [A('Ca'), A('C'), A('O', 18, 0, 'w')]), ('i', 'w', [A('H', 0, 0, 'w'), A('O')])], ['+']), None, ''),
        ('C', ('c', [('i', None, [A('H'), A('O')]), ('e', 'w', ('c', [('e', 'w', ('c', [('i', None, [A('C'), A('H', 0, 0, 'w')])])), ('i', None, [A('O')])]), (' ', ' ')),
                     ('i', None, [A('H')])], [' ', ' ']), None, ''),
        ('C', ('c', [('i', None, [A('Fe', 56, 3, 'f'), A('O', 0, -2, 'f'), A('D', 0, 0, 'w'), A('T', 0, 0, None), A('H', 1, 1, 'w')])]), None, ''),
        ('C', ('c', [('i', 'f', [A('Na', 0, 1, None, True), A('Cl', 35, -1, 'w', True)]), ('e', 'f', ('c', [('i', None, [A('U', 238, 6, 'w')])]))], [' ']), 'f', 'n'),
    ]
    if th:
        import random
        from .c01 import random_skeleton
        rng = random.Random(77)
        descs += [random_skeleton(rng) for _ in range(24)]
    for i, d in enumerate(descs):
        out.append(Case('roundtrip_parsed[%02d]' % i, _parsed_case(d), max_paths=mp, timeout_ms=20000, nsamples=1, conc_rel=1e-5))
    for k in ['n*f', 'n*single', 'f+g', 'n*(f+k*g)', 'n*f+k*(g+h)', 'ions_of_D', 'named']:
        out.append(Case('roundtrip_arith[%s]' % k, _arith_case(k), max_paths=mp, timeout_ms=20000, nsamples=2, conc_rel=1e-5))
    for k in ['weight', 'volume', 'nested']:
        out.append(Case('roundtrip_mixture[%s]' % k, _mixture_case(k), max_paths=mp, timeout_ms=20000, nsamples=2, conc_rel=1e-5))
    out.append(Case('boundary_counts', None, custom=_boundary_counts_case))
    out.append(Case('magnitude_replay', _magnitude_case, max_paths=4, nsamples=12 if not th else 60, conc_rel=1e-5))
    return out
