"""C18 -- biomolecule sequences are the sum of their residues."""
from __future__ import annotations

import itertools

from ..runner import Case
from .. import sym
from . import common as cm

META = dict(
    functions=['periodictable.fasta:Sequence.__init__', 'periodictable.fasta:Molecule.__init__', 'periodictable.fasta:_code_average',
               'periodictable.fasta:read_fasta', 'periodictable.fasta:_guess_type_from_filename', 'periodictable.formulas:formula'],
    bounds=("code tables temporarily populated (for the run) with residues built by the real Molecule constructor from formulas "
            "with symbolic counts, symbolic cell volume and charge; every code string of length <= 4 over <= 3 distinct codes "
            "listed in SEQS incl. spaces and a '*' terminator and all permutations of a multiset; ambiguity codes of 2 and 3 "
            "members; the three formula prefixes; read_fasta on lists of <= 4 lines of <= 3 characters (CrossHair)"),
    outside="the chemical formulas and volumes of the tabulated residues themselves (data); sequences longer than 4 codes",
    stubs=("np.maximum / abs as if-then-else terms (the SLD that Molecule computes on the way is not part of the claims, so the "
           "sqrt-domain obligations of that computation are not discharged here; C03/C17 do)"),
    assumptions=["floats as exact reals", "residue counts > 0, cell volumes > 0"],
)

SEQS = [('A', 'A'), ('AC', 'AC'), ('CA', 'AC'), ('ACA', 'AAC'), ('A C A', 'AAC'), ('AC*AD', 'AC'), (' C A*', 'AC'), ('ACD', 'ACD'),
        ('DCA', 'ACD'), ('CDA A', 'AACD'), ('', ''), ('*A', '')]


def _residues(E, table_name, codes):
    """replace the entries of the code table by residues with symbolic data; returns (restore, data)"""
    from periodictable import fasta, formulas
    import periodictable as pt
    tab = fasta.CODE_TABLES[table_name]
    saved = {c: tab[c] for c in codes}
    data = {}
    for i, c in enumerate(codes):
        n = [E.real('%s_n%d' % (c, j), lo=0, lo_open=True, hi=100) for j in range(4)]
        vol = E.real('%s_vol' % c, lo=1, hi=1e4)
        q = E.real('%s_q' % c, lo=-3, hi=3)
        st = [(n[0], pt.C), (n[1], pt.H), (n[2], pt.H[1]), (n[3], pt.O), (1, pt.N)] + ([(1, pt.S)] if i == 1 else [])
        m = fasta.Molecule('res-' + c, formulas.formula(st), cell_volume=vol, charge=q)
        data[c] = dict(structure=st, vol=vol, q=q, mol=m)
        tab[c] = m

    def restore():
        for c, m in saved.items():
            tab[c] = m
    return restore, data


def _want(data, multiset):
    import periodictable as pt
    atoms = {}
    vol = 0
    q = 0
    for c in multiset:
        for cnt, a in data[c]['structure']:
            atoms[a] = atoms.get(a, 0) + cnt
        vol = vol + data[c]['vol']
        q = q + data[c]['q']
    return atoms, vol, q


def _sequence_case(table_name, seqs):
    def h(E):
        from periodictable import fasta, formulas
        from periodictable.constants import avogadro_number
        import periodictable as pt
        codes = ['A', 'C', 'D'] if table_name == 'aa' else ['A', 'C', 'G']
        tr = (lambda s: s) if table_name == 'aa' else (lambda s: s.replace('D', 'G'))
        restore, data = _residues(E, table_name, codes)
        try:
            for text, multiset in seqs:
                text, multiset = tr(text), tr(multiset)
                s = fasta.Sequence('seq', text, type=table_name)
                atoms, vol, q = _want(data, multiset)
                got = s.labile_formula.atoms
                nm = 'seq[%s]' % text
                E.fact(nm + '.atom_set', set(got) == set(atoms), note='%s vs %s' % (sorted(map(str, got)), sorted(map(str, atoms))))
                for a, c in atoms.items():
                    if a in got:
                        E.eq('%s.atoms[%s]' % (nm, a), got[a], c)
                E.eq(nm + '.cell_volume', s.cell_volume, vol)
                E.eq(nm + '.charge', s.charge, q)
                mH = sum(c * (pt.H.mass if a is pt.H[1] else a.mass) for a, c in atoms.items())
                mD = sum(c * (pt.D.mass if a is pt.H[1] else a.mass) for a, c in atoms.items())
                E.eq(nm + '.mass', s.mass, mH)
                E.eq(nm + '.Dmass', s.Dmass, mD)
                if multiset:
                    # density = mass / cell volume (labile formula: H[1] mass)
                    ml = sum(c * a.mass for a, c in atoms.items())
                    E.eq(nm + '.density', s.labile_formula.density * vol * avogadro_number, ml * 1e24)
                E.fact(nm + '.sequence_text', s.sequence == text.split('*', 1)[0].replace(' ', ''))
                # the formula prefix gives the same formula
                f = formulas.formula('%s:%s' % (table_name, text))
                E.fact(nm + '.prefix_atom_set', set(f.atoms) == set(atoms))
                for a, c in atoms.items():
                    if a in f.atoms:
                        E.eq('%s.prefix_atoms[%s]' % (nm, a), f.atoms[a], c)
        finally:
            restore()
    return h


def _permutation_case(multiset):
    def h(E):
        from periodictable import fasta
        restore, data = _residues(E, 'aa', ['A', 'C', 'D'])
        try:
            ref = None
            for perm in sorted(set(itertools.permutations(multiset))):
                s = fasta.Sequence('p', ''.join(perm), type='aa')
                cur = (s.labile_formula.atoms, s.cell_volume, s.charge, s.mass, s.Dmass)
                if ref is None:
                    ref = cur
                    continue
                nm = 'perm[%s]' % ''.join(perm)
                E.fact(nm + '.atom_set', set(cur[0]) == set(ref[0]))
                for a in ref[0]:
                    E.eq('%s.atoms[%s]' % (nm, a), cur[0][a], ref[0][a])
                for k, lab in enumerate(('cell_volume', 'charge', 'mass', 'Dmass'), start=1):
                    E.eq('%s.%s' % (nm, lab), cur[k], ref[k])
                # Hill form makes the structure itself order independent
                E.fact(nm + '.same_structure_order', [a for _, a in s.labile_formula.structure] == [a for _, a in fasta.Sequence('p', ''.join(multiset), type='aa').labile_formula.structure])
        finally:
            restore()
    return h


def _ambiguity_case(members):
    """an ambiguity code is the equal-weight average of the residues it stands for"""
    def h(E):
        from periodictable import fasta
        restore, data = _residues(E, 'aa', list(members))
        try:
            formula, vol, q = fasta._code_average(members, fasta.AMINO_ACID_CODES)
            n = len(members)
            atoms, wvol, wq = _want(data, members)
            got = formula.atoms
            E.fact('average.atom_set', set(got) == set(atoms))
            for a, c in atoms.items():
                if a in got:
                    E.eq('average.atoms[%s]' % a, got[a] * n, c)
            E.eq('average.cell_volume', vol * n, wvol)
            E.eq('average.charge', q * n, wq)
            # installed as a code, a sequence using it adds the average
            saved = fasta.AMINO_ACID_CODES.get('B')
            try:
                fasta._set_amino_acid_average('B', members)
                s = fasta.Sequence('amb', members[0] + 'B', type='aa')
                for a, c in atoms.items():
                    base = dict((aa, cc) for cc, aa in data[members[0]]['structure']).get(a, 0)
                    E.eq('sequence_with_code.atoms[%s]' % a, s.labile_formula.atoms[a] * n, base * n + c)
                E.eq('sequence_with_code.cell_volume', s.cell_volume * n, data[members[0]]['vol'] * n + wvol)
                E.eq('sequence_with_code.charge', s.charge * n, data[members[0]]['q'] * n + wq)
                E.eq('installed_code.charge', fasta.AMINO_ACID_CODES['B'].charge * n, wq)
            finally:
                if saved is not None:
                    fasta.AMINO_ACID_CODES['B'] = saved
        finally:
            restore()
    return h


def _real_tables_case(case, tier, seed):
    """ground: the shipped ambiguity codes are the equal-weight averages of their shipped members (concrete)"""
    from periodictable import fasta
    res = dict(paths=1, claims=0, discharged=0, queries=0, distinct=0, violations=[], inconclusive=[], samples=[], solver_s=0.0, complete=True)
    spec = dict(aa=dict(B='DN', J='LI', Z='EQ', X='ACDEFGHIKLMNPQRSTVWY'),
                dna=dict(R='AG', Y='CT', K='GT', M='AC', S='CG', W='AT', B='CGT', D='AGT', H='ACT', V='ACG', N='ACGT'))
    spec['rna'] = dict(spec['dna'])
    for tname, codes in spec.items():
        tab = fasta.CODE_TABLES[tname]
        for code, members in codes.items():
            res['claims'] += 1
            n = len(members)
            vol = sum(tab[m].cell_volume for m in members) / n
            chg = sum(tab[m].charge for m in members) / n
            atoms = {}
            for m in members:
                for a, c in tab[m].labile_formula.atoms.items():
                    atoms[a] = atoms.get(a, 0) + c / n
            got = tab[code]
            ok = abs(got.cell_volume - vol) <= 1e-9 * vol and (tname != 'aa' or abs(got.charge - chg) <= 1e-9) and \
                set(got.labile_formula.atoms) == set(atoms) and \
                all(abs(got.labile_formula.atoms[a] - c) <= 1e-9 * c for a, c in atoms.items())
            if ok:
                res['discharged'] += 1
            else:
                res['violations'].append(dict(case=case.name, claim='shipped_code[%s:%s]' % (tname, code), values={'members': members},
                                              observed=[str(got.labile_formula), str(atoms)], how='concrete'))
    # sequences of ambiguity codes: the formula is the sum of the residues' formulas (fractional counts that add up to
    # whole numbers included), the volume and charge the sums of theirs
    for tname, texts in (('dna', ['HV', 'AV', 'BBB', 'DHV', 'NNB', 'RYKMSWBDHVN', 'BDHVBDHV']), ('rna', ['HV', 'BBB', 'NNB']), ('aa', ['BZJX', 'XXX', 'BBZZ'])):
        tab = fasta.CODE_TABLES[tname]
        for text in texts:
            res['claims'] += 1
            seq = fasta.Sequence(None, text, type=tname)
            want = {}
            for c in text:
                for a, n in tab[c].labile_formula.atoms.items():
                    want[a] = want.get(a, 0) + n
            got = seq.labile_formula.atoms
            vol = sum(tab[c].cell_volume for c in text)
            chg = sum(tab[c].charge for c in text)
            ok = set(got) == set(want) and all(abs(got[a] - n) <= 1e-9 * max(1.0, n) for a, n in want.items()) and abs(seq.cell_volume - vol) <= 1e-9 * vol \
                and abs(seq.charge - chg) <= 1e-9
            if ok:
                res['discharged'] += 1
            else:
                diff = {str(a): (got.get(a), n) for a, n in want.items() if a not in got or abs(got[a] - n) > 1e-9 * max(1.0, n)}
                res['violations'].append(dict(case=case.name, claim='sequence_is_sum_of_residues[%s:%s]' % (tname, text), values={},
                                              observed=[repr(diff)[:200], 'sum over the residues'], how='concrete'))
    # the formula prefixes give the same formula (counts, density) as the sequence classes, ambiguity codes included
    from periodictable import formulas
    for tname, texts in (('aa', ['A', 'ACD', 'BXZJ', 'GGX', 'XXXXXXX AC']), ('dna', ['B', 'ACGT', 'NNB', 'DHV', 'RYKMSWBDHVN']),
                         ('rna', ['B', 'ACGU', 'NNB', 'DHV'])):
        for text in texts:
            res['claims'] += 1
            want = fasta.Sequence(None, text, type=tname).labile_formula
            got = formulas.formula('%s:%s' % (tname, text))
            if dict(got.atoms) == dict(want.atoms) and got.density == want.density:
                res['discharged'] += 1
            else:
                diff = {str(a): (got.atoms.get(a), c) for a, c in want.atoms.items() if got.atoms.get(a) != c}
                res['violations'].append(dict(case=case.name, claim='prefix_equals_sequence[%s:%s]' % (tname, text), values={},
                                              observed=[repr(diff)[:200], repr((got.density, want.density))], how='concrete'))
    # ... and keeps doing so after an earlier result has been modified in place (chain terminations, a new density)
    for tname, text in (('aa', 'ACD'), ('dna', 'ACGT'), ('rna', 'ACGU')):
        res['claims'] += 1
        first = formulas.formula('%s:%s' % (tname, text))
        first += formulas.formula('H[1]2O')
        first.density = 9.75
        again = formulas.formula('%s:%s' % (tname, text))
        want = fasta.Sequence(None, text, type=tname).labile_formula
        if again is not first and dict(again.atoms) == dict(want.atoms) and again.density == want.density:
            res['discharged'] += 1
        else:
            res['violations'].append(dict(case=case.name, claim='prefix_result_is_fresh[%s:%s]' % (tname, text), values={},
                                          observed=[repr((dict(again.atoms), again.density))[:200], repr((dict(want.atoms), want.density))[:200]], how='concrete'))
    res['queries'] = res['distinct'] = res['claims']
    res['samples'] = [dict(checked_codes=res['claims'])]
    res['violations'] = res['violations'][:5]
    return res


CH_MOD = '''
from typing import List
from periodictable.fasta import read_fasta, _guess_type_from_filename


def _ok_line(l):
    return len(l) <= 3 and all(c in '>AC *' for c in l)


def records(lines: List[str]) -> bool:
    """
    pre: len(lines) <= 4 and all(_ok_line(l) for l in lines)
    post: __return__
    """
    got = list(read_fasta(iter(lines)))
    want = []
    name, seq = None, []
    for line in lines:
        line = line.rstrip()
        if line.startswith('>'):
            if name is not None:
                want.append((name, ''.join(seq)))
            name, seq = line, []
        else:
            seq.append(line)
    if name is not None:
        want.append((name, ''.join(seq)))
    headers = sum(1 for l in lines if l.startswith('>'))
    return got == want and len(got) == headers


def file_type(stem: str, k: int) -> bool:
    """
    pre: len(stem) <= 4 and all(c in 'ab._' for c in stem)
    pre: 0 <= k <= 5
    post: __return__
    """
    ext, want = [('.fna', 'dna'), ('.ffn', 'dna'), ('.faa', 'aa'), ('.frn', 'rna'), ('.txt', 'aa'), ('', 'aa')][k]
    return _guess_type_from_filename(stem + ext, None) == want and _guess_type_from_filename(stem + ext, 'rna') == 'rna'
'''


def _fasta_crosshair(case, tier, seed):
    from .. import ch
    import ast
    ns = {}
    exec(CH_MOD, ns)

    def rp(fn):
        def f(argtext):
            args = ast.literal_eval('(' + argtext + ',)')
            ok = ns[fn](*args)
            return (not ok), '%s%r = %r' % (fn, args, ok)
        return f
    return ch.crosshair_case(case.name, CH_MOD, {k: rp(k) for k in ('records', 'file_type')}, timeout_s=60 if tier == 'quick' else 200)


def cases(tier):
    th = tier == 'thorough'
    mode = {'max': 'ite', 'abs': 'ite'}
    out = []
    chunks = [SEQS[:4], SEQS[4:8], SEQS[8:]]
    for i, ch_ in enumerate(chunks):
        out.append(Case('sequence[aa|%d]' % i, _sequence_case('aa', ch_), max_paths=64, timeout_ms=30000, nsamples=1, mode=mode, domain_checks=False, budget_s=400))
    out.append(Case('sequence[dna|0]', _sequence_case('dna', SEQS[1:4]), max_paths=64, timeout_ms=30000, nsamples=1, mode=mode, domain_checks=False, budget_s=400))
    if th:
        out.append(Case('sequence[rna|0]', _sequence_case('rna', SEQS[:5]), max_paths=64, timeout_ms=30000, nsamples=1, mode=mode, domain_checks=False, budget_s=900))
        out.append(Case('sequence[dna|1]', _sequence_case('dna', SEQS[4:]), max_paths=64, timeout_ms=30000, nsamples=1, mode=mode, domain_checks=False, budget_s=900))
    for ms in (['AAC', 'ACD'] if not th else ['AAC', 'ACD', 'AACD', 'ACCD']):
        out.append(Case('permutations[%s]' % ms, _permutation_case(ms), max_paths=64, timeout_ms=30000, nsamples=1, mode=mode, domain_checks=False, budget_s=600 if not th else 1400))
    for mem in (['AC', 'ACD'] if not th else ['AC', 'ACD', 'CD']):
        out.append(Case('ambiguity[%s]' % mem, _ambiguity_case(mem), max_paths=64, timeout_ms=30000, nsamples=1, mode=mode, domain_checks=False, budget_s=400))
    out.append(Case('shipped_ambiguity_codes', None, custom=_real_tables_case))
    out.append(Case('read_fasta_crosshair', None, custom=_fasta_crosshair, budget_s=800 if th else 260))
    return out
