"""C05 -- X-ray factors, SLD and refraction follow the tables and documented equations."""
from __future__ import annotations

import math
import os

import numpy as np
import z3

from ..runner import Case
from .. import sym
from ..sym import SymReal, SymComplex
from . import common as cm

META = dict(
    functions=['periodictable.xsf:Xray.scattering_factors', 'periodictable.xsf:Xray._gettable', 'periodictable.xsf:Xray.sld',
               'periodictable.xsf:xray_sld', 'periodictable.xsf:index_of_refraction', 'periodictable.xsf:mirror_reflectivity',
               'periodictable.xsf:xray_energy', 'periodictable.xsf:xray_wavelength', 'periodictable.xsf:Xray.f0',
               'periodictable.cromermann:fxrayatstol', 'periodictable.cromermann:fxrayatq'],
    bounds=("(a) scattering_factors with a symbolic energy on real elements against an independent reading of the .nff file: "
            "windows of 12-40 table nodes around absorption edges plus both out-of-range sides (quick), whole tables (thorough); "
            "(b) xray_sld / Xray.sld / index_of_refraction on compounds of 1-3 atoms with symbolic counts, density, masses and "
            "uninterpreted scattering-factor functions f1(E), f2(E) per element, scalar and 2-vector; (c) mirror_reflectivity for "
            "1-2 angles x 1-2 wavelengths with symbolic refractive index; (d) f0 symbol/charge resolution (CrossHair) and the "
            "Cromer-Mann formula (shared with C20)"),
    outside=("segments of the tables with a NaN (-9999) endpoint; numpy's C implementation of interp (semantic model); floating "
             "point rounding; the agreement f0(0) = Z - charge per table entry is a ground data check (C20 ground case)"),
    stubs=("np.interp: fork tree over the concrete nodes; per-element scattering factors in (b): uninterpreted functions of the "
           "energy; complex sqrt: w*w == z, Re w >= 0; sin/cos: s*s + c*c == 1, functional; exp: axiomatised"),
    assumptions=["floats as exact reals", "incidence angle in [0, 90] degrees (sin >= 0)"],
)


def read_nff(symbol):
    """independent reading of the Henke table: [(keV, f1 or None, f2)]"""
    from periodictable import core
    path = os.path.join(core.get_data_path('xsf'), symbol.lower() + '.nff')
    rows = []
    with open(path) as fh:
        next(fh)
        for line in fh:
            w = line.split()
            if len(w) < 3:
                continue
            ev, f1, f2 = float(w[0]), float(w[1]), float(w[2])
            rows.append((ev * 0.001, None if f1 == -9999. else f1, f2))
    return rows


def _window(rows, kind, width):
    """index window around the largest jump of f2 (an absorption edge)"""
    jumps = [(abs(rows[i + 1][2] - rows[i][2]), i) for i in range(len(rows) - 1)]
    i = max(jumps)[1]
    lo = max(0, i - width // 2)
    hi = min(len(rows) - 1, lo + width)
    return lo, hi


def _factors_case(symbol, where, width=14, via='energy'):
    def h(E):
        import periodictable as pt
        from periodictable import xsf
        el = getattr(pt, symbol)
        rows = read_nff(symbol)
        emin, emax = rows[0][0], rows[-1][0]
        disorder = [(rows[i][0], rows[i + 1][0]) for i in range(len(rows) - 1) if rows[i + 1][0] < rows[i][0]]
        if disorder:
            # interpolation over nodes that are not in increasing order is not a function of the table
            E.fact('table_nodes_increasing', False, note='%s.nff: energies out of order at %r keV' % (symbol.lower(), disorder[:2]))
            return
        if where == 'below':
            en = E.real('energy', lo=emin / 10, hi=emin, hi_open=True)
        elif where == 'above':
            en = E.real('energy', lo=emax, lo_open=True, hi=emax * 3)
        elif where == 'all':
            en = E.real('energy', lo=emin, hi=emax)
        else:
            lo, hi = _window(rows, where, width)
            en = E.real('energy', lo=rows[lo][0], hi=rows[hi][0])
        if via == 'wavelength':
            lam = xsf.xray_wavelength(en)
            lam = lam.item() if isinstance(lam, np.ndarray) and E.symbolic else lam
            f1, f2 = el.xray.scattering_factors(wavelength=lam)
        else:
            f1, f2 = el.xray.scattering_factors(energy=en)
        if where in ('below', 'above'):
            for nm, v in (('f1', f1), ('f2', f2)):
                E.fact('%s_nan_outside_table' % nm, v is sym.SymNaN or (not isinstance(v, SymReal) and v != v), note=repr(v))
            return
        # oracle: linear interpolation of the independent reading (nodes of the window only)
        if where == 'all':
            lo, hi = 0, len(rows) - 1
        idx = list(range(lo, hi + 1))
        # locate the segment by bisection on the window's nodes
        a_, b_ = 0, len(idx) - 1
        while b_ - a_ > 1:
            mid = (a_ + b_) // 2
            if en >= rows[idx[mid]][0]:
                a_ = mid
            else:
                b_ = mid
        i, j = idx[a_], idx[b_]
        xa, xb = rows[i][0], rows[j][0]
        dup = (i > 0 and rows[i - 1][0] == xa) or (j + 1 < len(rows) and rows[j + 1][0] == xb) or xa == xb
        for k, (nm, got) in enumerate((('f1', f1), ('f2', f2)), start=1):
            fa, fb = rows[i][k], rows[j][k]
            if en == xa:
                if dup or fa is None:
                    continue      # the value at a doubled edge energy / missing value is not fixed by the property
                want = fa
            elif en == xb:
                if dup or fb is None:
                    continue
                want = fb
            elif fa is None or fb is None or xa == xb:
                continue          # NaN endpoints: left out of the claim
            else:
                want = fa + (fb - fa) * ((en - xa) / (xb - xa))
            if en == xa or en == xb:
                E.eq('%s_interpolates_table' % nm, got, want)
            else:
                E.near('%s_interpolates_table' % nm, got, want, 1e-9 * max(abs(fa), abs(fb), 1e-12))
    return h


class FakeXray:
    """scattering factors as uninterpreted functions of the energy (symbolic mode) or smooth functions (concrete)"""
    def __init__(self, E, tag):
        self.E, self.tag = E, tag
        if E.symbolic:
            self.F1 = z3.Function('f1_' + tag, z3.RealSort(), z3.RealSort())
            self.F2 = z3.Function('f2_' + tag, z3.RealSort(), z3.RealSort())
        self.k = (sum(map(ord, tag)) % 7) + 1

    def one(self, e):
        if isinstance(e, SymReal):
            return SymReal(self.F1(e.t)), SymReal(self.F2(e.t))
        e = float(e)
        return self.k * (1 + 0.1 * e), 0.3 * self.k / (1 + e)

    def scattering_factors(self, energy=None, wavelength=None):
        if isinstance(energy, np.ndarray):
            pairs = [self.one(e) for e in energy.flat]
            dt = object if self.E.symbolic else float
            f1 = np.array([p[0] for p in pairs], dtype=dt).reshape(energy.shape)
            f2 = np.array([p[1] for p in pairs], dtype=dt).reshape(energy.shape)
            return f1, f2
        return self.one(energy)


_FAKES = {}


def _setup_fake(E, keys, tag='c05'):
    """private table; Xray.scattering_factors (public method) is patched for the duration of the case so
    that the atoms of this table answer with uninterpreted functions of the energy"""
    from periodictable import xsf
    T, atoms, _ = cm.sym_pool(E, tag, keys, neutron=False, natural=True, density=True)
    fakes = {}
    for k, a in zip(keys, atoms):
        el = _el_of(a)
        if el not in fakes:
            fakes[el] = FakeXray(E, k)
    _FAKES.clear()
    _FAKES.update(fakes)
    if not getattr(xsf.Xray.scattering_factors, '_pverif', False):
        real = xsf.Xray.scattering_factors

        def scattering_factors(self, *a, **kw):
            el = _el_of(self.element)
            if el in _FAKES:
                if a:
                    raise TypeError('name=value required for energy, wavelength')
                if kw.get('wavelength') is not None:
                    kw = dict(energy=xsf.xray_energy(kw['wavelength']))
                return _FAKES[el].scattering_factors(**kw)
            return real(self, *a, **kw)
        scattering_factors._pverif = True
        scattering_factors._real = real
        xsf.Xray.scattering_factors = scattering_factors
    return T, atoms, fakes


def _unpatch():
    from periodictable import xsf
    f = xsf.Xray.scattering_factors
    if getattr(f, '_pverif', False):
        xsf.Xray.scattering_factors = f._real
    _FAKES.clear()


def _el_of(a):
    b = cm.base_of(a)
    return getattr(b, 'element', b)


R_E = 2.8179402894e-15


def _sld_case(keys, dens_kind, arg_kind):
    def h(E):
        from periodictable import xsf, formulas
        T, atoms, fakes = _setup_fake(E, keys)
        counts = [E.real('c_%d%s' % (i, k), lo=0, lo_open=True, hi=1000) for i, k in enumerate(keys)]
        rho = E.real('rho', lo=0, lo_open=True, hi=25)
        f = formulas.formula(list(zip(counts, atoms)))
        kw = {dens_kind: rho}
        dens = rho if dens_kind == 'density' else formulas.formula(f, natural_density=rho).density
        en = E.real('energy', lo=0.01, hi=30)
        snap = cm.Snapshot(compound=f)
        if arg_kind == 'energy':
            got = xsf.xray_sld(f, energy=en, **kw)
            snap.check(E, 'xray_sld')
            e_used = en
        else:
            lam = xsf.xray_wavelength(en)
            lam = lam.item() if isinstance(lam, np.ndarray) and E.symbolic else float(lam) if not E.symbolic else lam
            got = xsf.xray_sld(f, wavelength=lam, **kw)
            e_used = en
            E.eq('energy_of_wavelength_of_energy', _item(E, xsf.xray_energy(lam)), en)
        mass = sum(c * a.mass for c, a in zip(counts, atoms))
        s1 = sum(c * fakes[_el_of(a)].one(e_used)[0] for c, a in zip(counts, atoms))
        s2 = sum(c * fakes[_el_of(a)].one(e_used)[1] for c, a in zip(counts, atoms))
        N = R_E * cm.N_A * dens / mass * 1e-8
        E.eq('sld_re', _item(E, got[0]), N * s1)
        E.eq('sld_im', _item(E, got[1]), N * s2)
        # linear in density
        k = E.real('k', lo=0, lo_open=True, hi=100)
        got2 = xsf.xray_sld(f, energy=en, density=k * dens)
        got1 = xsf.xray_sld(f, energy=en, density=dens)
        E.eq('linear_in_density.re', _item(E, got2[0]), k * _item(E, got1[0]))
        E.eq('linear_in_density.im', _item(E, got2[1]), k * _item(E, got1[1]))
        # index of refraction
        lam2 = _item(E, xsf.xray_wavelength(en))
        n = xsf.index_of_refraction(f, density=dens, energy=en)
        n = _item(E, n)
        E.eq('index_of_refraction.re', 1 - n.real, lam2 * lam2 / (2 * math.pi) * (N * s1) * 1e-6)
        E.eq('index_of_refraction.im', n.imag, -(lam2 * lam2 / (2 * math.pi) * (N * s2) * 1e-6))
        n_w = _item(E, xsf.index_of_refraction(f, density=dens, wavelength=lam2))
        E.eq('refraction_energy_vs_wavelength.re', 1 - n_w.real, 1 - n.real)
        E.eq('refraction_energy_vs_wavelength.im', n_w.imag, n.imag)
    return h


def _item(E, x):
    if isinstance(x, np.ndarray) and x.shape == ():
        return x.item()
    return x


def _vector_case(keys):
    def h(E):
        from periodictable import xsf, formulas
        T, atoms, fakes = _setup_fake(E, keys)
        counts = [E.real('c_%d%s' % (i, k), lo=0, lo_open=True, hi=1000) for i, k in enumerate(keys)]
        rho = E.real('rho', lo=0, lo_open=True, hi=25)
        f = formulas.formula(list(zip(counts, atoms)))
        es = [E.real('energy%d' % i, lo=0.01, hi=30) for i in range(2)]
        vec = np.array(es, dtype=object if E.symbolic else float)
        out = xsf.xray_sld(f, density=rho, energy=vec)
        for nm, o in zip(('re', 'im'), out):
            E.fact('vector_shape.' + nm, isinstance(o, np.ndarray) and o.shape == (2,), note=repr(getattr(o, 'shape', None)))
        for i, e in enumerate(es):
            s = xsf.xray_sld(f, density=rho, energy=e)
            for nm, o, sv in zip(('re', 'im'), out, s):
                if isinstance(o, np.ndarray) and o.shape == (2,):
                    E.eq('vector[%d].%s' % (i, nm), o[i], _item(E, sv))
    return h


def _formula_object_density_case(E):
    """density= / natural_density= keywords apply also when the compound is a Formula that carries its own density"""
    from periodictable import xsf, formulas
    keys = ['Xi', 'D', 'Y']
    T, atoms, fakes = _setup_fake(E, keys)
    counts = [E.real('c_%d%s' % (i, k), lo=0, lo_open=True, hi=1000) for i, k in enumerate(keys)]
    own = E.real('rho_own', lo=0, lo_open=True, hi=25)
    rho = E.real('rho', lo=0, lo_open=True, hi=25)
    en = E.real('energy', lo=0.01, hi=30)
    st = list(zip(counts, atoms))
    with_density = formulas.formula(st, density=own)
    plain = formulas.formula(st)
    for kw in ('density', 'natural_density'):
        a = xsf.xray_sld(with_density, energy=en, **{kw: rho})
        b = xsf.xray_sld(plain, energy=en, **{kw: rho})
        E.eq('keyword_%s_overrides_formula_density.re' % kw, _item(E, a[0]), _item(E, b[0]))
        E.eq('keyword_%s_overrides_formula_density.im' % kw, _item(E, a[1]), _item(E, b[1]))
    c = xsf.xray_sld(with_density, energy=en)
    d = xsf.xray_sld(plain, energy=en, density=own)
    E.eq('formula_density_used_without_keyword.re', _item(E, c[0]), _item(E, d[0]))
    # the (deprecated) method interface gives the same numbers, by energy and by wavelength; no density -> (None, None)
    m1 = with_density.xray_sld(energy=en)
    E.eq('method_interface.re', _item(E, m1[0]), _item(E, c[0]))
    E.eq('method_interface.im', _item(E, m1[1]), _item(E, c[1]))
    lam = _item(E, xsf.xray_wavelength(en))
    m2 = with_density.xray_sld(wavelength=lam)
    E.eq('method_interface_wavelength.re', _item(E, m2[0]), _item(E, c[0]))
    E.eq('method_interface_wavelength.im', _item(E, m2[1]), _item(E, c[1]))
    if len(keys) > 1:
        m3 = plain.xray_sld(energy=en)
        E.fact('method_interface_without_density', tuple(m3) == (None, None), note=repr(m3)[:60])


def _isotope_independence_case(E):
    """equal natural density => same X-ray SLD whatever isotopes are present (non-ionic isotopes)"""
    from periodictable import xsf, formulas
    keys = ['X', 'Xi', 'Y', 'Yi', 'H', 'D']
    T, atoms, fakes = _setup_fake(E, keys)
    A = dict(zip(keys, atoms))
    c = [E.real('c%d' % i, lo=0, lo_open=True, hi=1000) for i in range(3)]
    d = E.real('natural_density', lo=0, lo_open=True, hi=25)
    en = E.real('energy', lo=0.01, hi=30)
    nat = formulas.formula([(c[0], A['X']), (c[1], A['Y']), (c[2], A['H'])])
    iso = formulas.formula([(c[0], A['Xi']), (c[1], A['Yi']), (c[2], A['D'])])
    a = xsf.xray_sld(nat, natural_density=d, energy=en)
    b = xsf.xray_sld(iso, natural_density=d, energy=en)
    E.eq('isotope_independent.re', _item(E, a[0]), _item(E, b[0]))
    E.eq('isotope_independent.im', _item(E, a[1]), _item(E, b[1]))


def _element_sld_case(E):
    from periodictable import xsf
    T, atoms, fakes = _setup_fake(E, ['X'])
    el = atoms[0]
    en = E.real('energy', lo=0.01, hi=30)
    rho, irho = el.xray.sld(energy=en)      # the table reading itself is part (a)
    f1, f2 = fakes[el].one(en)
    E.eq('element_sld.re', rho * el.mass, f1 * R_E * el.density * cm.N_A * 1e-8)
    E.eq('element_sld.im', irho * el.mass, f2 * R_E * el.density * cm.N_A * 1e-8)
    lam = E.real('lam', lo=0.4, hi=1000)
    E.eq('energy_wavelength_product', _item(E, xsf.xray_energy(lam)) * lam, 4.13566733e-15 * 299792458 * 1e7)
    E.eq('wavelength_of_energy_of_wavelength', _item(E, xsf.xray_wavelength(_item(E, xsf.xray_energy(lam)))), lam)


def _reflectivity_case(nangle, nwave, rough):
    def h(E):
        from periodictable import xsf
        import periodictable.xsf as X
        # index of refraction: arbitrary complex value per wavelength (stubbing index_of_refraction)
        lams = [E.real('lam%d' % i, lo=0.4, hi=1000) for i in range(nwave)]
        angs = [E.real('angle%d' % i, lo=0, hi=90) for i in range(nangle)]
        nre = [E.real('n_re%d' % i, lo=0.5, hi=1.0) for i in range(nwave)]
        nim = [E.real('n_im%d' % i, lo=-0.1, hi=0.0) for i in range(nwave)]
        sig = E.real('roughness', lo=0, hi=50) if rough else 0
        real_ior = X.index_of_refraction

        seen = []

        def ior(compound=None, density=None, natural_density=None, energy=None, wavelength=None):
            seen.append((compound, density, natural_density))
            if E.symbolic:
                return np.array([SymComplex(a, b) for a, b in zip(nre, nim)], dtype=object)
            return np.array([complex(a, b) for a, b in zip(nre, nim)])
        X.index_of_refraction = ior
        try:
            wl = np.array(lams, dtype=object if E.symbolic else float) if nwave > 1 else lams[0]
            an = np.array(angs, dtype=object if E.symbolic else float) if nangle > 1 else angs[0]
            R = xsf.mirror_reflectivity('Si', density=2.33, wavelength=wl, angle=an, roughness=sig)
            # the material description reaches the index of refraction unchanged, whichever density keyword is used
            nd = E.real('natural_density', lo=0, lo_open=True, hi=25)
            xsf.mirror_reflectivity('D2O', natural_density=nd, wavelength=wl, angle=an, roughness=sig)
        finally:
            X.index_of_refraction = real_ior
        E.fact('material_forwarded', len(seen) == 2 and seen[0] == ('Si', 2.33, None) and seen[1][0] == 'D2O' and seen[1][1] is None
               and seen[1][2] is nd, note=repr(seen)[:200])
        E.fact('reflectivity_shape', isinstance(R, np.ndarray) and R.shape == (nangle, nwave), note=repr(getattr(R, 'shape', None)))
        for i in range(nangle):
            for j in range(nwave):
                r = R[i, j]
                E.true('reflectivity_ge_0[%d,%d]' % (i, j), r >= 0)
                E.true('reflectivity_le_1[%d,%d]' % (i, j), r <= 1)
    return h


CH_MOD = '''
from periodictable import cromermann
cromermann.getCMformula('H')
_KEYS = set(cromermann._cmformulas)
_seen = []


class _F:
    def __init__(self, s): self.s = s
    def atstol(self, stol): return self.s


def _lookup(s):
    return _F(s)


cromermann.getCMformula = _lookup


def resolve(charge: int, k: int) -> bool:
    """
    pre: -9 <= charge <= 9
    pre: 0 <= k <= 3
    post: __return__
    """
    sym = ['Fe', 'O', 'Fe3+', 'O1-'][k]
    base = ['Fe', 'O', 'Fe', 'O'][k]
    got = cromermann.fxrayatstol(sym, 0.0, charge=charge)
    want = base if charge == 0 else base + str(abs(charge)) + ('+' if charge > 0 else '-')
    return got == want


def suffix(k: int) -> bool:
    """
    pre: 0 <= k <= 5
    post: __return__
    """
    sym, want = [('Na+', 'Na1+'), ('Cl-', 'Cl1-'), ('Fe3+', 'Fe3+'), ('O2-', 'O2-'), ('Si', 'Si'), ('Siva', 'Siva')][k]
    return cromermann.fxrayatstol(sym, 0.0) == want
'''


def _f0_crosshair(case, tier, seed):
    from .. import ch
    import ast
    ns = {}

    def rp(fn):
        def f(argtext):
            if not ns:
                exec(CH_MOD, ns)
            args = ast.literal_eval('(' + argtext + ',)')
            ok = ns[fn](*args)
            return (not ok), '%s%r = %r' % (fn, args, ok)
        return f
    try:
        return ch.crosshair_case(case.name, CH_MOD, {k: rp(k) for k in ('resolve', 'suffix')}, timeout_s=45 if tier == 'quick' else 120)
    finally:
        from periodictable import cromermann
        import importlib
        importlib.reload(cromermann)


def _tables_ordered_case(case, tier, seed):
    """ground: every shipped .nff table has its energies in increasing order"""
    import glob
    from periodictable import core
    res = dict(paths=1, claims=0, discharged=0, queries=0, distinct=0, violations=[], inconclusive=[], samples=[], solver_s=0.0, complete=True)
    for f in sorted(glob.glob(os.path.join(core.get_data_path('xsf'), '*.nff'))):
        sym_ = os.path.basename(f)[:-4]
        rows = read_nff(sym_)
        res['claims'] += 1
        bad = [(rows[i][0], rows[i + 1][0]) for i in range(len(rows) - 1) if rows[i + 1][0] < rows[i][0]]
        if bad:
            res['violations'].append(dict(case='factors[%s|table order]' % sym_.capitalize(), claim='table_nodes_increasing', values={'file': sym_ + '.nff'},
                                          observed=[repr(bad[:3]), 'increasing energies'], how='concrete reading of the table'))
        else:
            res['discharged'] += 1
    res['queries'] = res['distinct'] = res['claims']
    res['samples'] = [dict(tables=res['claims'])]
    return res


def _nodes_ground_case(case, tier, seed):
    """ground (concrete, exhaustive over the rows of the shipped tables; not a solver claim): at every tabulated energy
    the tabulated f1, f2 are returned (f1 NaN exactly where the table says -9999); scalar and vector calls"""
    import glob
    import periodictable as pt
    from periodictable import core
    res = dict(paths=1, claims=0, discharged=0, queries=0, distinct=0, violations=[], inconclusive=[], samples=[], solver_s=0.0, complete=True)
    files = sorted(glob.glob(os.path.join(core.get_data_path('xsf'), '*.nff')))
    nrows = 0
    for fpath in files:
        sym_ = os.path.basename(fpath)[:-4].capitalize()
        try:
            el = pt.elements.symbol(sym_)
        except ValueError:
            continue
        rows = read_nff(sym_.lower())
        en = np.array([r[0] for r in rows])
        f1v, f2v = el.xray.scattering_factors(energy=en)
        bad = []
        for i, (e, f1, f2) in enumerate(rows):
            # a repeated or out-of-order energy (absorption edge rows, and the Si finding) has no single tabulated value
            if (i > 0 and rows[i - 1][0] >= e) or (i + 1 < len(rows) and rows[i + 1][0] <= e):
                continue
            nrows += 1
            ok1 = (f1v[i] != f1v[i]) if f1 is None else abs(f1v[i] - f1) <= 1e-9 * max(1.0, abs(f1))
            ok2 = abs(f2v[i] - f2) <= 1e-9 * max(1e-30, abs(f2))
            if i in (0, len(rows) // 2, len(rows) - 1) or not (ok1 and ok2):
                s1, s2 = el.xray.scattering_factors(energy=e)
                ok1 = ok1 and ((s1 != s1) if f1 is None else abs(float(s1) - f1) <= 1e-9 * max(1.0, abs(f1)))
                ok2 = ok2 and abs(float(s2) - f2) <= 1e-9 * max(1e-30, abs(f2))
            if not (ok1 and ok2):
                bad.append((e, float(f1v[i]), f1, float(f2v[i]), f2))
        res['claims'] += 1
        if not bad:
            res['discharged'] += 1
        elif len(res['violations']) < 5:
            res['violations'].append(dict(case=case.name, claim='tabulated_values_at_nodes[%s]' % sym_, values={'energy_keV': bad[0][0]},
                                          observed=[repr(bad[0][1::2]), repr(bad[0][2::2])], how='concrete, %d nodes differ' % len(bad)))
    res['queries'] = res['distinct'] = res['claims']
    res['samples'] = [dict(tables=len(files), nodes_checked=nrows)]
    return res


def _f0_api_case(case, tier, seed):
    """ground (concrete): Xray.f0 for elements and ions -- vector calls agree with scalar calls, the caller's array is
    not modified, a second call gives the same answer, values beyond Q = 24 pi are NaN every time"""
    import periodictable as pt
    res = dict(paths=1, claims=0, discharged=0, queries=0, distinct=0, violations=[], inconclusive=[], samples=[], solver_s=0.0, complete=True)
    atoms = [pt.H, pt.H.ion[-1], pt.O, pt.O.ion[-2], pt.Fe, pt.Fe.ion[2], pt.Fe.ion[3], pt.U, pt.U.ion[6], pt.Si, pt.C]
    qs = [0.0, 1.5, 3.0, 7.0, 20.0, 75.0, 80.0]
    for atom in atoms:
        for make in (lambda: np.array(qs), lambda: list(qs), lambda: np.array(qs, dtype=np.float32), lambda: np.array([[0.0, 3.0], [7.0, 80.0]])):
            Q = make()
            before = np.array(Q, dtype=float).copy()
            r1 = np.array(atom.xray.f0(Q), dtype=float)
            r2 = np.array(atom.xray.f0(Q), dtype=float)
            res['claims'] += 1
            ok = np.array_equal(np.array(Q, dtype=float), before) and np.array_equal(r1, r2, equal_nan=True) and r1.shape == before.shape
            if ok:
                for i, q in enumerate(before.flat):
                    sc = float(atom.xray.f0(float(q)))
                    v = float(r1.flat[i])
                    ok = ok and ((sc != sc and v != v) or abs(v - sc) <= 1e-6 * max(1.0, abs(sc)))
                    ok = ok and ((v != v) == (q > 24 * math.pi))
            if ok:
                res['discharged'] += 1
            elif len(res['violations']) < 5:
                res['violations'].append(dict(case=case.name, claim='f0_vector_call[%s]' % atom, values={'Q': before.tolist()},
                                              observed=[repr(r1.tolist())[:120], repr(r2.tolist())[:120]], how='concrete'))
    res['queries'] = res['distinct'] = res['claims']
    res['samples'] = [dict(atoms=len(atoms))]
    return res


def _first_touch_case(case, tier, seed):
    """ground (concrete, fresh interpreters): the x-ray data served do not depend on whether the first x-ray lookup of the
    process goes through an element, an ion or a compound"""
    import periodictable as pt
    from periodictable import xsf
    res = dict(paths=1, claims=0, discharged=0, queries=0, distinct=0, violations=[], inconclusive=[], samples=[], solver_s=0.0, complete=True)
    exprs = ['float(pt.Fe.ion[3].xray.f0(3.0))', 'float(pt.H.ion[-1].xray.f0(0.0))', 'float(pt.O.ion[-2].xray.f0(5.0))', 'float(pt.Fe[56].xray.f0(3.0))',
             '[float(x) for x in xsf.xray_sld("Fe{3+}2O{2-}3@5", energy=8.0)]', '[float(x) for x in pt.Ni[58].xray.sld(energy=8.0)]']
    want = [eval(e) for e in exprs]
    for i, e in enumerate(exprs):
        code = ("import json\nimport periodictable as pt\nfrom periodictable import xsf\nfirst = %s\n"
                "print(json.dumps([first, [%s]]))\n") % (e, ', '.join(exprs))
        got = cm.fresh_interpreter(code)
        res['claims'] += 1
        if isinstance(got, list) and got[0] == want[i] and got[1] == want:
            res['discharged'] += 1
        else:
            res['violations'].append(dict(case=case.name, claim='first_lookup[%s]' % e, values={}, observed=[repr(got)[:300], repr(want)[:300]], how='fresh interpreter'))
    res['queries'] = res['distinct'] = res['claims']
    res['samples'] = [dict(first_lookups=exprs)]
    return res


def _wrap(fn):
    def h(E):
        try:
            return fn(E)
        finally:
            _unpatch()
    return h


def cases(tier):
    th = tier == 'thorough'
    out = []
    elems = ['Fe', 'Si', 'Au', 'H'] if not th else ['Fe', 'Si', 'Au', 'H', 'C', 'O', 'U', 'Cu', 'Ni', 'Gd', 'Pb', 'Al', 'Ti', 'Ge']
    for s in elems:
        out.append(Case('factors[%s|edge window]' % s, _factors_case(s, 'edge', 14 if not th else 60), max_paths=4096, timeout_ms=20000,
                        nsamples=3, budget_s=300 if not th else 1500))
    for s in (['Fe'] if not th else ['Fe', 'H', 'U']):
        out.append(Case('factors[%s|below]' % s, _factors_case(s, 'below'), max_paths=64, timeout_ms=20000))
        out.append(Case('factors[%s|above]' % s, _factors_case(s, 'above'), max_paths=64, timeout_ms=20000))
    out.append(Case('factors[Si|edge window|wavelength]', _factors_case('Si', 'edge', 10, via='wavelength'), max_paths=4096, timeout_ms=20000,
                    nsamples=3, budget_s=300))
    if th:
        for s in ('Si', 'Fe'):
            out.append(Case('factors[%s|whole table]' % s, _factors_case(s, 'all'), max_paths=8192, timeout_ms=20000, nsamples=3, budget_s=1700))
    for keys, dk, ak in [(('X', 'Y'), 'density', 'energy'), (('Xi', 'D', 'Y'), 'natural_density', 'wavelength'),
                         (('Xq', 'Xq3', 'X', 'Yq'), 'density', 'energy')] + \
            ([(('X',), 'density', 'wavelength'), (('Xq', 'Yq', 'H'), 'natural_density', 'energy')] if th else []):
        out.append(Case('sld[%s|%s|%s]' % ('+'.join(keys), dk, ak), _wrap(_sld_case(keys, dk, ak)), max_paths=64, timeout_ms=30000, portfolio=th, validate=False))
    out.append(Case('sld_vector[X+Y]', _wrap(_vector_case(('X', 'Y'))), max_paths=64, timeout_ms=30000, validate=False))
    out.append(Case('isotope_independence', _wrap(_isotope_independence_case), max_paths=64, timeout_ms=30000, validate=False))
    out.append(Case('formula_object_density', _wrap(_formula_object_density_case), max_paths=64, timeout_ms=30000, validate=False))
    from .c20 import _cromermann_case
    out.append(Case('cromer_mann_formula', _cromermann_case, max_paths=32, timeout_ms=30000))
    out.append(Case('element_sld_and_conversions', _wrap(_element_sld_case), max_paths=16, timeout_ms=30000, validate=False))
    for na, nw, rg in [(1, 1, False), (2, 1, False), (1, 2, True)] + ([(2, 2, True)] if th else []):
        out.append(Case('reflectivity[angles=%d|wavelengths=%d|rough=%s]' % (na, nw, rg), _reflectivity_case(na, nw, rg), max_paths=256,
                        timeout_ms=60000, portfolio=True, budget_s=400 if not th else 1500, nsamples=2))
    out.append(Case('nff_tables_ordered', None, custom=_tables_ordered_case))
    out.append(Case('nff_table_nodes_ground', None, custom=_nodes_ground_case))
    out.append(Case('f0_api_ground', None, custom=_f0_api_case))
    out.append(Case('first_lookup_ground', None, custom=_first_touch_case))
    out.append(Case('f0_symbol_resolution_crosshair', None, custom=_f0_crosshair, budget_s=500 if th else 200))
    return out
