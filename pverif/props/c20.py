"""C20 -- ancillary tables are served to exactly the element or ion they belong to (partial)."""
from __future__ import annotations

import math

import numpy as np

from ..runner import Case
from .. import sym
from ..sym import SymReal
from . import common as cm

META = dict(
    functions=['periodictable.magnetic_ff:formfactor_0', 'periodictable.magnetic_ff:formfactor_n',
               'periodictable.magnetic_ff:MagneticFormFactor.j0_Q', 'periodictable.magnetic_ff:MagneticFormFactor.j2_Q',
               'periodictable.magnetic_ff:MagneticFormFactor.J_Q', 'periodictable.cromermann:CromerMannFormula.atstol'],
    bounds=("magnetic form factors: the coefficient tuple (A,a,B,b,C,c,D) and Q are symbolic reals, Q scalar and 2-vector, every "
            "<jn>_Q method; Q = 0 limits for all coefficients; Cromer-Mann: symbolic sin(theta)/lambda on symbolic 5-Gaussian "
            "coefficient sets (value, NaN beyond the fitted range)"),
    outside=("that each table row is attached to the right element or ion (radii, structures, emission lines, CFML symbol split, "
             "DABAX parsing): finite row association with no symbolic variable; the per-ion fact |A+B+C+D - 1| <= 0.005 is a "
             "ground sweep reported here but not a symbolic claim"),
    stubs="exp: axiomatised, the oracle reuses the code's applications",
    assumptions=["floats as exact reals"],
)


def _oracle(E, coeffs, q, power):
    """A exp(-a s^2) + B exp(-b s^2) + C exp(-c s^2) + D with s = Q/4pi, times s^2 for n > 0"""
    A, a, B, b, C, c, D = coeffs
    s2 = (q / (4 * math.pi)) ** 2
    tot = D
    for amp, rate in ((A, a), (B, b), (C, c)):
        if E.symbolic:
            arg = -(rate * s2)
            e = sym.find_exp(arg.t) if isinstance(arg, SymReal) else math.exp(arg)
            if e is None:
                return None
        else:
            e = math.exp(-rate * s2)
        tot = tot + amp * e
    return tot * s2 if power else tot


def _ff_case(kind, vector):
    def h(E):
        from periodictable import magnetic_ff
        ff = magnetic_ff.MagneticFormFactor()
        names = 'AaBbCcD'
        coeffs = tuple(E.real('%s_%s' % (kind, n), lo=-5 if n in 'ABCD' else 0, hi=5 if n in 'ABCD' else 100) for n in names)
        setattr(ff, 'j0' if kind == 'M' else kind, coeffs)
        meth = getattr(ff, kind + '_Q')
        power = kind in ('j2', 'j4', 'j6')
        if vector:
            qs = [E.real('Q%d' % i, lo=0, hi=30) for i in range(2)]
            qarr = np.array(qs, dtype=object if E.symbolic else float)
            out = meth(qarr)
            E.fact('vector_shape', isinstance(out, np.ndarray) and out.shape == (2,))
            # the caller's array is only read: asking again with the same array gives the same answer
            again = meth(qarr)
            for i, q in enumerate(qs):
                E.eq('caller_array_unchanged[%d]' % i, qarr[i], q)
                E.eq('same_answer_again[%d]' % i, again[i], out[i])
            for i, q in enumerate(qs):
                w = _oracle(E, coeffs, q, power)
                if w is None:
                    E.fact('exp_arguments_documented[%d]' % i, False)
                else:
                    E.eq('%s_Q[%d]' % (kind, i), out[i], w)
        else:
            q = E.real('Q', lo=0, hi=30)
            out = meth(q)
            out = out.item() if isinstance(out, np.ndarray) and E.symbolic else out
            w = _oracle(E, coeffs, q, power)
            if w is None:
                E.fact('exp_arguments_documented', False)
            else:
                E.eq('%s_Q' % kind, out, w)
        # Q = 0 limits hold for all coefficients
        z = meth(0)
        z = z.item() if isinstance(z, np.ndarray) else z
        A, a, B, b, C, c, D = coeffs
        E.eq('%s_Q_at_0' % kind, z, 0 if power else A + B + C + D)
    return h


def _cromermann_case(E):
    from periodictable import cromermann
    a = [E.real('a%d' % i, lo=0, hi=40) for i in range(5)]
    b = [E.real('b%d' % i, lo=0, hi=200) for i in range(5)]
    c = E.real('c', lo=-20, hi=20)
    f = cromermann.CromerMannFormula('Xx', [1.0] * 5, [1.0] * 5, 0.0)
    f.a = np.array(a, dtype=object if E.symbolic else float)
    f.b = np.array(b, dtype=object if E.symbolic else float)
    f.c = c
    s = E.real('stol', lo=0, hi=10)
    out = f.atstol(s)
    out = out.item() if isinstance(out, np.ndarray) and out.shape == () else out
    if s > 6:
        E.fact('nan_beyond_fitted_range', out is sym.SymNaN or (not isinstance(out, SymReal) and out != out), note=repr(out))
    else:
        tot = c
        ok = True
        for ai, bi in zip(a, b):
            if E.symbolic:
                e = sym.find_exp((-(bi * (s * s))).t) or sym.find_exp((-(bi * s ** 2)).t)
                if e is None:
                    ok = False
                    break
            else:
                e = math.exp(-bi * s * s)
            tot = tot + ai * e
        if not ok:
            E.fact('exp_arguments_documented', False)
        else:
            E.eq('cromer_mann_value', out, tot)
    z = f.atstol(0.0)
    z = z.item() if isinstance(z, np.ndarray) and z.shape == () else z
    E.eq('f0_at_Q0_is_sum_a_plus_c', z, sum(a) + c)


def _ground_table(case, tab, tag, res):
    """ground facts on the shipped tables (not symbolic): <j0>(0) within 0.5% of 1, higher orders 0,
    f0(0) = Z - charge for every Cromer-Mann entry, NaN beyond Q = 24 pi"""
    import periodictable as pt
    from periodictable import cromermann
    import re
    n_ff = 0
    for el in tab:
        ffs = getattr(el, 'magnetic_ff', None)
        if not ffs:
            continue
        for charge, ff in ffs.items():
            for kind in ('j0', 'J', 'j2', 'j4', 'j6'):
                if not hasattr(ff, kind):
                    continue
                n_ff += 1
                v = float(getattr(ff, ('M' if kind == 'j0' else kind) + '_Q')(0.0))
                ok = abs(v - 1) <= 0.005 if kind in ('j0',) else (True if kind == 'J' else v == 0)
                res['claims'] += 1
                if ok:
                    res['discharged'] += 1
                else:
                    res['violations'].append(dict(case=case.name, claim=('Q0_limit[%s%+d %s|' + tag + ']') % (el.symbol, charge, kind), values={},
                                                  observed=[v, 1 if kind == 'j0' else 0], how='concrete'))
    # magnetic coefficient sets against an independent reading of the embedded CFML text
    from periodictable import magnetic_ff as mff
    want_ff = {}
    for sect, label, body in re.findall(r'(Magnetic_(?:Form|j2|j4|j6))\(\s*\d+\)\s*=\s*Magnetic_Form_Type\("([^"]*)",\s*(?:&\s*)?\(/([^/]*)/\)', mff.CFML_DATA):
        if sect == 'Magnetic_Form':
            kind, label = ('j0' if label[0] == 'M' else 'J'), label[1:]
        else:
            kind = sect[len('Magnetic_'):]
        m = re.fullmatch(r'([A-Z]{1,2})(\d)\s*', label)
        if not m:
            res['inconclusive'].append(dict(case=case.name, claim='cfml_label_readable', why='label %r' % label))
            continue
        want_ff.setdefault((m.group(1).capitalize(), int(m.group(2))), {})[kind] = tuple(float(x) for x in body.split(','))
    n_tab = 0
    for el in tab:
        ffs = getattr(el, 'magnetic_ff', None) or {}
        charges = sorted(q for (s_, q) in want_ff if s_ == el.symbol)
        res['claims'] += 1
        n_tab += 1
        if sorted(ffs) == charges:
            res['discharged'] += 1
        else:
            res['violations'].append(dict(case=case.name, claim=('magnetic_charge_states[%s|' + tag + ']') % el.symbol, values={}, observed=[repr(sorted(ffs)), repr(charges)], how='concrete'))
            continue
        for q in charges:
            w = want_ff[(el.symbol, q)]
            got = {k: tuple(getattr(ffs[q], k)) for k in ('j0', 'J', 'j2', 'j4', 'j6') if hasattr(ffs[q], k)}
            res['claims'] += 1
            n_tab += 1
            if got == w:
                res['discharged'] += 1
            else:
                res['violations'].append(dict(case=case.name, claim=('magnetic_coefficients[%s%+d|' + tag + ']') % (el.symbol, q), values={},
                                              observed=[repr(got)[:200], repr(w)[:200]], how='concrete'))
    cromermann.getCMformula('H')
    n_cm = 0
    for smbl, f in cromermann._cmformulas.items():
        m = re.fullmatch(r'([A-Z][a-z]?)(?:(\d)([+-]))?(.*)', smbl)
        if not m or m.group(4):
            continue      # e.g. 'Hval', 'H.': not an element/ion symbol
        try:
            el = tab.symbol(m.group(1))
        except ValueError:
            continue
        q = int(m.group(2)) * (1 if m.group(3) == '+' else -1) if m.group(2) else 0
        n_cm += 1
        res['claims'] += 2
        v0 = float(f.atstol(0.0))
        if abs(v0 - (el.number - q)) <= 0.02 * max(1, el.number):
            res['discharged'] += 1
        else:
            res['violations'].append(dict(case=case.name, claim=('f0_at_0[%s|' + tag + ']') % smbl, values={}, observed=[v0, el.number - q], how='concrete'))
        vn = float(f.atstol(6.0001))
        if vn != vn and float(f.atstol(6.0)) == float(f.atstol(6.0)):
            res['discharged'] += 1
        else:
            res['violations'].append(dict(case=case.name, claim=('nan_beyond_range[%s|' + tag + ']') % smbl, values={}, observed=[vn, 'nan'], how='concrete'))
    # independent reading of the DABAX file: '#S <n> <label>' ... first data line = a1..a5 c b1..b5
    from periodictable import core as _core
    import os as _os
    text = open(_os.path.join(_core.get_data_path('xsf'), 'f0_WaasKirf.dat')).read()
    dabax = {}
    for blk in re.split(r'^#S\s+', text, flags=re.M)[1:]:
        lines = blk.split('\n')
        label = lines[0].split()[1]
        row = next(l for l in lines[1:] if l.strip() and not l.startswith('#'))
        v = [float(x) for x in row.split()]
        dabax[label] = (v[0:5], v[5], v[6:11])

    def f0_file(label, Q):
        a, c, b = dabax[label]
        s2 = (Q / (4 * math.pi)) ** 2
        return sum(ai * math.exp(-bi * s2) for ai, bi in zip(a, b)) + c
    res['claims'] += 1
    if set(dabax) == set(cromermann._cmformulas) and len(dabax) >= 200:
        res['discharged'] += 1
    else:
        res['violations'].append(dict(case=case.name, claim='cromer_mann_entries_are_the_file_entries|' + tag, values={},
                                      observed=[repr(sorted(set(dabax) ^ set(cromermann._cmformulas)))[:200], 'same labels'], how='concrete'))
    for label in dabax:
        if label not in cromermann._cmformulas:
            continue
        for Q in (0.0, 1.5, 7.0, 20.0):
            res['claims'] += 1
            got = float(cromermann.getCMformula(label).atstol(Q / (4 * math.pi)))
            want = f0_file(label, Q)
            if abs(got - want) <= 1e-9 * max(1.0, abs(want)):
                res['discharged'] += 1
            else:
                res['violations'].append(dict(case=case.name, claim=('f0_of_file_entry[%s|' + tag + ']') % label, values={'Q': Q}, observed=[got, want], how='concrete'))
    # the same entries reached through the public per-ion API: element.ion[q].xray.f0(Q)
    n_api = 0
    for smbl, f in cromermann._cmformulas.items():
        m = re.fullmatch(r'([A-Z][a-z]?)(?:(\d)([+-]))?', smbl)
        if not m:
            continue
        try:
            el = tab.symbol(m.group(1))
        except ValueError:
            continue
        q = int(m.group(2)) * (1 if m.group(3) == '+' else -1) if m.group(2) else 0
        if q and q not in el.ions:
            continue
        atom = el.ion[q] if q else el
        # a float array of Q is only read: asking again with the same array gives the same answer, entry by entry
        Qv = np.array([0.0, 3.0, 7.0])
        r1 = np.array(atom.xray.f0(Qv), dtype=float)
        r2 = np.array(atom.xray.f0(Qv), dtype=float)
        res['claims'] += 1
        if list(Qv) == [0.0, 3.0, 7.0] and np.array_equal(r1, r2) and all(abs(r1[i] - float(atom.xray.f0(float(q)))) <= 1e-12 * max(1.0, abs(r1[i])) for i, q in enumerate((0.0, 3.0, 7.0))):
            res['discharged'] += 1
        else:
            res['violations'].append(dict(case=case.name, claim=('f0_vector_call[%s|' + tag + ']') % smbl, values={}, observed=[repr((Qv.tolist(), r1.tolist(), r2.tolist()))[:200], 'array unchanged, same answer'], how='concrete'))
        for Q in (0.0, 3.0):
            res['claims'] += 1
            n_api += 1
            got = float(atom.xray.f0(Q))
            want = f0_file(smbl, Q) if smbl in dabax else float(f.atstol(Q / (4 * math.pi)))
            if abs(got - want) <= 1e-9 * max(1.0, abs(want)):
                res['discharged'] += 1
            else:
                res['violations'].append(dict(case=case.name, claim=('f0_entry_for_ion[%s|' + tag + ']') % smbl, values={'Q': Q}, observed=[got, want], how='concrete'))
    # covalent radii and uncertainties against an independent reading of the embedded table
    from periodictable import covalent_radius
    rows = {}
    for line in covalent_radius.Cordero.split('\n'):
        w = line.split()
        if not w or w[0] == '-':
            continue
        rows.setdefault(int(w[0]), (float(w[2]), float(w[3]) * 0.01 if len(w) > 3 else 0.0))
    n_rad = 0
    for el in tab:
        if el.number == 0:
            continue
        res['claims'] += 1
        n_rad += 1
        r, dr = el.covalent_radius, el.covalent_radius_uncertainty
        if el.number in rows:
            ok = r == rows[el.number][0] and dr is not None and abs(dr - rows[el.number][1]) < 1e-12
        else:
            ok = r is None and dr is None
        if ok:
            res['discharged'] += 1
        else:
            res['violations'].append(dict(case=case.name, claim=('covalent_radius[%s|' + tag + ']') % el.symbol, values={}, observed=[repr((r, dr)), repr(rows.get(el.number))], how='concrete'))
    # K-alpha / K-beta1 emission lines
    from periodictable import xsf
    lines = {}
    for row in xsf.spectral_lines_data.split('\n'):
        w = row.split()
        if len(w) == 3:
            lines[w[0]] = (float(w[1]), float(w[2]))
    n_lines = 0
    for el in tab:
        res['claims'] += 1
        n_lines += 1
        ka, kb = getattr(el, 'K_alpha', None), getattr(el, 'K_beta1', None)
        ok = (ka, kb) == lines[el.symbol] if el.symbol in lines else (ka is None and kb is None)
        if ok:
            res['discharged'] += 1
        else:
            res['violations'].append(dict(case=case.name, claim=('emission_lines[%s|' + tag + ']') % el.symbol, values={}, observed=[repr((ka, kb)), repr(lines.get(el.symbol))], how='concrete'))
    # crystal structures: the embedded list is positional (index = Z).  Its per-line '#Symbol' comments are used only to
    # confirm that positions and atomic numbers line up (the comments themselves contain a typo: 'Th' on the Tb line).
    from periodictable import crystal_structure as cs
    import inspect
    src = inspect.getsource(cs)
    body = src[src.index('crystal_structures = ['):src.index('def init')]
    labels = [m.group(1) for m in re.finditer(r"#\s*(\w+)\s*$", body, re.M)]
    res['claims'] += 1
    agree = sum(1 for z, lab in enumerate(labels) if z < len(tab._element) and tab[z].symbol == lab)
    if len(labels) == len(cs.crystal_structures) and agree >= len(labels) - 3:
        res['discharged'] += 1
    else:
        res['violations'].append(dict(case=case.name, claim='crystal_structure_rows_aligned_with_Z', values={}, observed=[agree, len(labels)], how='concrete'))
    n_cs = 0
    for el in tab:
        res['claims'] += 1
        n_cs += 1
        got = getattr(el, 'crystal_structure', None)
        want = cs.crystal_structures[el.number] if el.number < len(cs.crystal_structures) else None
        if got == want and (want is None or got is want):
            res['discharged'] += 1
        else:
            res['violations'].append(dict(case=case.name, claim=('crystal_structure[%s|' + tag + ']') % el.symbol, values={}, observed=[repr(got), repr(want)], how='concrete'))
    res['samples'].append(dict(table=tag, magnetic_coefficient_sets=n_ff, crystal_structure_slots=n_cs, crystal_rows_read=len(labels), magnetic_table_entries=n_tab, cromer_mann_entries=n_cm, f0_via_ion_api=n_api, covalent_radii=n_rad, emission_rows=n_lines))


def _ground_case(case, tier, seed):
    """the shipped-table sweep on the public table and on a freshly initialised private table"""
    import periodictable as pt
    from periodictable import core, mass, density, covalent_radius, crystal_structure, magnetic_ff, xsf
    import os
    res = dict(paths=1, claims=0, discharged=0, queries=0, distinct=0, violations=[], inconclusive=[], samples=[], solver_s=0.0, complete=True)
    for el in (pt.Fe, pt.Cu):
        el.covalent_radius, el.crystal_structure, el.magnetic_ff, el.K_alpha, el.xray      # public table: load every group
    T = core.PeriodicTable('vsym-c20-%d' % os.getpid())
    try:
        for m in (mass, density, covalent_radius, crystal_structure, magnetic_ff, xsf):
            m.init(T)
        xsf.init_spectral_lines(T)
    finally:
        for k, v in list(core.PRIVATE_TABLES.items()):
            if v is T:
                del core.PRIVATE_TABLES[k]
    _ground_table(case, pt.elements, 'public', res)
    _ground_table(case, T, 'private', res)
    # an atom carried over to the private table (core.change_table, Formula.change_table) is that table's own element,
    # isotope, ion or isotope ion, and is served that table's entry for it
    from periodictable import formulas
    for atom, want in ((pt.Ni, T.Ni), (pt.Ni[58], T.Ni[58]), (pt.Ni.ion[2], T.Ni.ion[2]), (pt.Ni[58].ion[2], T.Ni[58].ion[2]),
                       (pt.O[18].ion[-2], T.O[18].ion[-2]), (pt.D.ion[1], T.D.ion[1]), (pt.H.ion[-1], T.H.ion[-1])):
        res['claims'] += 1
        got = core.change_table(atom, T)
        moved = formulas.formula([(1, atom)]).change_table(T)
        try:
            same_f0 = abs(float(got.xray.f0(3.0)) - float(want.xray.f0(3.0))) <= 1e-12
        except KeyError:
            same_f0 = True      # no Cromer-Mann entry for this ion in either table
        if got is want and list(moved.atoms) == [want] and same_f0 and getattr(got, 'charge', 0) == getattr(atom, 'charge', 0):
            res['discharged'] += 1
        else:
            res['violations'].append(dict(case=case.name, claim='change_table[%s]' % atom, values={}, observed=[repr((str(got), getattr(got, 'charge', 0))), str(want)], how='concrete'))
    # nothing is shared between the two tables' records
    res['claims'] += 1
    if T.Fe.magnetic_ff is not pt.Fe.magnetic_ff and T.Fe is not pt.Fe:
        res['discharged'] += 1
    else:
        res['violations'].append(dict(case=case.name, claim='private_table_has_own_records', values={}, observed=['shared', 'separate'], how='concrete'))
    res['queries'] = res['distinct'] = res['claims']
    res['violations'] = res['violations'][:5]
    return res


def cases(tier):
    th = tier == 'thorough'
    out = []
    for kind in (['M', 'j2', 'J'] if not th else ['M', 'j0', 'j2', 'j4', 'j6', 'J']):
        out.append(Case('formfactor[%s|scalar]' % kind, _ff_case(kind, False), max_paths=16, timeout_ms=30000))
    for kind in (['j0', 'j4'] if not th else ['j0', 'j2', 'j4', 'J']):
        out.append(Case('formfactor[%s|vector2]' % kind, _ff_case(kind, True), max_paths=16, timeout_ms=30000))
    out.append(Case('cromer_mann_formula', _cromermann_case, max_paths=32, timeout_ms=30000))
    out.append(Case('shipped_tables_ground', None, custom=_ground_case))
    from .c05 import _first_touch_case
    out.append(Case('first_lookup_ground', None, custom=_first_touch_case))
    return out
