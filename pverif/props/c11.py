"""C11 -- mixtures keep the requested mass or volume proportions and a consistent density."""
from __future__ import annotations

from ..runner import Case
from .. import sym, symparse as sp
from . import common as cm
from .c02 import oracle_mass

META = dict(
    functions=['periodictable.formulas:mix_by_weight', 'periodictable.formulas:mix_by_volume',
               'periodictable.formulas:_mix_by_weight_pairs', 'periodictable.formulas:_mix_by_volume_pairs',
               'periodictable.formulas:formula_grammar', 'periodictable.formulas:Formula.__rmul__',
               'periodictable.formulas:Formula.__iadd__'],
    bounds=("1-3 components (4 thorough) from {single atom, compound, compound with a group, an already-mixed formula}, each "
            "with known or unknown density and an arbitrary positive cell scaling; quantities symbolic reals >= 0; atom masses "
            "and component densities symbolic (private table); string forms: wt%/vol%/mass%/bare-% spellings, all 13 unit "
            "spellings, layers, nested mixture with density tag, repeated groups, with every numeric literal symbolic"),
    outside="floating-point rounding with very unequal quantities; more than 4 components",
    stubs="formulas.float / formulas.int patched as module globals (placeholder numeral -> symbol); min()/q>0 by forking",
    assumptions=["floats as exact reals", "quantities >= 0, densities > 0, masses > 0",
                 "component masses are recovered from an atom unique to each component"],
)

COMP_KEYS = [['X', 'Y'], ['Z', 'D'], ['W', 'H'], ['C', 'N']]
SHAPES = {
    'atom': lambda c, A: [(1, A[0])],
    'compound': lambda c, A: [(c[0], A[0]), (c[1], A[1])],
    'group': lambda c, A: [(c[0], A[0]), (c[1], [(1, A[0]), (c[0], A[1])])],
}


def make_components(E, T, spec):
    """spec: list of (shape, density_known, scaled).  Returns list of dicts(f, unique, keys)."""
    from periodictable import formulas
    P = cm.pool(T)
    comps = []
    for i, (shape, dk, scaled) in enumerate(spec):
        keys = COMP_KEYS[i]
        A = [P[k] for k in keys]
        c = [E.real('n%d_%d' % (i, j), lo=0, lo_open=True, hi=1000) for j in range(2)]
        st = SHAPES[shape](c, A)
        if shape == 'atom':
            # element density is symbolic on the private table
            # a single-atom formula always carries its atom's density (formula() restores the default on copy),
            # so "unknown density" is not expressible for this shape
            f = formulas.formula(A[0])
        else:
            f = formulas.formula(st, density=E.real('rho%d' % i, lo=0, lo_open=True, hi=25)) if dk else formulas.formula(st)
        if scaled:
            s = E.real('s%d' % i, lo=0, lo_open=True, hi=1000)
            f = s * f
        comps.append(dict(f=f, unique=A[0], known=dk))
    return comps


def comp_mass(f):
    return sum(c * oracle_mass(a) for a, c in f.atoms.items())


def check_mix(E, name, r, comps, qs, kind, check_density=True):
    """r: resulting formula; comps: component dicts; qs: requested quantities (> 0 for present ones)"""
    got = r.atoms
    present = [(c, q) for c, q in zip(comps, qs) if q is not None]
    ns, ms = [], []
    union = {}
    for c, q in present:
        u = c['unique']
        catoms = c['f'].atoms
        E.fact('%s.component_present[%s]' % (name, u), u in got)
        if u not in got:
            return
        n = got[u] / catoms[u]
        ns.append(n)
        ms.append(comp_mass(c['f']))
        for b, cb in catoms.items():
            union[b] = union.get(b, 0) + n * cb
    E.fact(name + '.atom_set', set(got) == set(union), note='%s vs %s' % (sorted(map(str, got)), sorted(map(str, union))))
    for b in union:
        if b in got:
            E.eq('%s.atoms[%s]' % (name, b), got[b], union[b])
    for i in range(len(present)):
        for j in range(i + 1, len(present)):
            qi, qj = present[i][1], present[j][1]
            if kind == 'weight':
                E.eq('%s.mass_ratio[%d:%d]' % (name, i, j), ns[i] * ms[i] * qj, ns[j] * ms[j] * qi)
            else:
                di, dj = present[i][0]['f'].density, present[j][0]['f'].density
                E.eq('%s.volume_ratio[%d:%d]' % (name, i, j), ns[i] * ms[i] / di * qj, ns[j] * ms[j] / dj * qi)
    if check_density and present:
        if all(c['f'].density is not None for c, q in present):
            tm = sum(n * m for n, m in zip(ns, ms))
            tv = sum(n * m / c['f'].density for n, m, (c, q) in zip(ns, ms, present))
            E.fact(name + '.density_known', r.density is not None)
            if r.density is not None:
                E.eq(name + '.density', r.density * tv, tm)
        else:
            E.fact(name + '.density_unknown', r.density is None, note=repr(r.density))


def _api_case(kind, spec, zero=None, keywords=None):
    def h(E):
        from periodictable import formulas
        T, _, _ = cm.sym_pool(E, 'c11', [k for ks in COMP_KEYS[:len(spec)] for k in ks], neutron=False, natural=True, density=True)
        comps = make_components(E, T, spec)
        qs = []
        for i in range(len(comps)):
            if zero is not None and i in zero:
                q = E.real('q%d' % i, lo=0, hi=1000)
            else:
                q = E.real('q%d' % i, lo=0, lo_open=True, hi=1000)
            qs.append(q)
        args = []
        for c, q in zip(comps, qs):
            args += [c['f'], q]
        fn = formulas.mix_by_weight if kind == 'weight' else formulas.mix_by_volume
        kw = {}
        if keywords == 'density':
            kw['density'] = E.real('rho_kw', lo=0, lo_open=True, hi=25)
        elif keywords == 'natural_density':
            kw['natural_density'] = E.real('rho_kw', lo=0, lo_open=True, hi=25)
        elif keywords == 'name':
            kw['name'] = 'mixture-name'
        # which components are requested with a positive amount (forks on q > 0 inside the harness too)
        eff = [q if (q > 0) else None for q in qs]
        missing = [c for c, q in zip(comps, eff) if q is not None and c['f'].density is None]
        if kind == 'volume' and missing:
            try:
                r = fn(*args, **kw)
            except ValueError:
                E.fact('volume_mix_without_density_raises', True)
                return
            E.fact('volume_mix_without_density_raises', False, note='returned %s' % r)
            return
        snap = cm.Snapshot(components=[a for a in args if hasattr(a, 'structure')])
        r = fn(*args, **kw)
        snap.check(E, 'mix')
        for c, q in zip(comps, eff):
            if q is None:
                E.fact('zero_quantity_absent[%s]' % c['unique'], c['unique'] not in r.atoms)
        check_mix(E, kind, r, comps, eff, kind, check_density=(keywords not in ('density', 'natural_density')))
        if keywords == 'density':
            E.eq('keyword.density', r.density, kw['density'])
        elif keywords == 'natural_density':
            E.eq('keyword.natural_density', r.natural_density, kw['natural_density'])
        elif keywords == 'name':
            E.fact('keyword.name', r.name == 'mixture-name' and str(r) == 'mixture-name')
    return h


def _scaling_case(kind):
    def h(E):
        from periodictable import formulas
        T, _, _ = cm.sym_pool(E, 'c11', [k for ks in COMP_KEYS[:2] for k in ks], neutron=False, natural=True, density=True)
        comps = make_components(E, T, [('compound', True, False), ('group', True, False)])
        q0 = E.real('q0', lo=0, lo_open=True, hi=1000)
        q1 = E.real('q1', lo=0, lo_open=True, hi=1000)
        s0 = E.real('s0', lo=0, lo_open=True, hi=1000)
        s1 = E.real('s1', lo=0, lo_open=True, hi=1000)
        fn = formulas.mix_by_weight if kind == 'weight' else formulas.mix_by_volume
        f0, f1 = comps[0]['f'], comps[1]['f']
        r = fn(f0, q0, f1, q1)
        r2 = fn(s0 * f0, q0, s1 * f1, q1)
        a, b = comps[0]['unique'], comps[1]['unique']
        for x in r.atoms:
            E.eq('scaling_invariant.atoms[%s]' % x, r2.atoms[x] * r.atoms[a], r.atoms[x] * r2.atoms[a])
        E.eq('scaling_invariant.density', r2.density, r.density)
    return h


def _repeated_compound_case(kind):
    """the same compound listed twice with two different densities (e.g. two phases), plus a third material"""
    def h(E):
        from periodictable import formulas
        T, _, _ = cm.sym_pool(E, 'c11', ['X', 'Y', 'Z'], neutron=False, natural=True, density=True)
        P = cm.pool(T)
        X, Y, Z = P['X'], P['Y'], P['Z']
        c1, c2, c3 = [E.real(n, lo=0, lo_open=True, hi=1000) for n in ('c1', 'c2', 'c3')]
        r1, r2, r3 = [E.real(n, lo=0, lo_open=True, hi=25) for n in ('rho1', 'rho2', 'rho3')]
        q1, q2, q3 = [E.real(n, lo=0, lo_open=True, hi=1000) for n in ('q1', 'q2', 'q3')]
        fa = formulas.formula([(c1, X), (c2, Y)], density=r1)
        fb = formulas.formula([(c1, X), (c2, Y)], density=r2)
        fc = formulas.formula([(c3, Z)], density=r3)
        fn = formulas.mix_by_weight if kind == 'weight' else formulas.mix_by_volume
        r = fn(fa, q1, fb, q2, fc, q3)
        M1 = c1 * oracle_mass(X) + c2 * oracle_mass(Y)
        mZ = oracle_mass(Z)
        if kind == 'weight':
            m12, m3 = q1 + q2, q3
            vol = q1 / r1 + q2 / r2 + q3 / r3
        else:
            m12, m3 = q1 * r1 + q2 * r2, q3 * r3
            vol = q1 + q2 + q3
        got = r.atoms
        E.fact('repeated.atom_set', set(got) == {X, Y, Z})
        if set(got) == {X, Y, Z}:
            E.eq('repeated.mass_ratio', got[X] * M1 * m3, c1 * m12 * got[Z] * mZ)
            E.eq('repeated.stoichiometry', got[X] * c2, got[Y] * c1)
            E.fact('repeated.density_known', r.density is not None)
            if r.density is not None:
                E.eq('repeated.density', r.density * vol, m12 + m3)
    return h


def _nested_api_case(E):
    """a component that is itself a mixture"""
    from periodictable import formulas
    T, _, _ = cm.sym_pool(E, 'c11', [k for ks in COMP_KEYS[:3] for k in ks], neutron=False, natural=True, density=True)
    comps = make_components(E, T, [('compound', True, False), ('atom', True, False), ('compound', True, False)])
    qa, qb, q0, q1 = [E.real(n, lo=0, lo_open=True, hi=1000) for n in ('qa', 'qb', 'q0', 'q1')]
    inner = formulas.mix_by_weight(comps[0]['f'], qa, comps[1]['f'], qb)
    check_mix(E, 'inner', inner, comps[:2], [qa, qb], 'weight')
    innerc = dict(f=inner, unique=comps[0]['unique'], known=True)
    outer = formulas.mix_by_volume(inner, q0, comps[2]['f'], q1)
    check_mix(E, 'outer', outer, [innerc, comps[2]], [q0, q1], 'volume')


# ---------------------------------------------------------------- string forms
MASS_UNITS = {'ng': 1e-9, 'ug': 1e-6, 'mg': 1e-3, 'g': 1.0, 'kg': 1e3}
VOLUME_UNITS = {'nL': 1e-9, 'uL': 1e-6, 'mL': 1e-3, 'L': 1.0}
LENGTH_UNITS = {'nm': 1e-9, 'um': 1e-6, 'mm': 1e-3, 'cm': 1e-2}


def _parts(E, T, n, with_density_tag):
    """component texts 'Fe2O3@d' over unique atoms; returns list of dict(text, f (oracle formula), unique)"""
    from periodictable import formulas
    P = cm.pool(T)
    out = []
    for i in range(n):
        keys = COMP_KEYS[i]
        A = [P[k] for k in keys]
        if with_density_tag[i] == 'element':
            txt = str(A[0].symbol)
            f = formulas.formula(A[0])
        elif with_density_tag[i] == 'element_counted':
            # a single element written with a count ("2Fe", "Fe3"): still that element's density
            l1 = sp.Lit(E, 'p%d_a' % i, 'whole')
            txt = (l1.text + str(A[0].symbol)) if i % 2 == 0 else (str(A[0].symbol) + l1.text)
            f = formulas.formula([(l1.value, A[0])], density=A[0].density)
        else:
            l1 = sp.Lit(E, 'p%d_a' % i, 'whole')
            l2 = sp.Lit(E, 'p%d_b' % i, 'fract')
            txt = '%s%s%s%s' % (A[0].symbol, l1.text, A[1].symbol, l2.text)
            st = [(l1.value, A[0]), (l2.value, A[1])]
            if with_density_tag[i]:
                d = sp.Lit(E, 'p%d_rho' % i, 'fract', hi=25)
                txt += '@' + d.text
                f = formulas.formula(st, density=d.value)
            else:
                f = formulas.formula(st)
        out.append(dict(text=txt, f=f, unique=A[0], known=f.density is not None))
    return out


def _percent_case(kind, word, later, n, dens):
    """'c1 wt% A // c2 % B // C'"""
    def h(E):
        from periodictable import formulas
        sp.reset()
        T, _, _ = cm.sym_pool(E, 'c11s', [k for ks in COMP_KEYS[:n] for k in ks], neutron=False, natural=True, density=True)
        parts = _parts(E, T, n, dens)
        lits = [sp.Lit(E, 'pct%d' % i, 'fract' if i % 2 == 0 else 'whole', hi=100) for i in range(n - 1)]
        total = sum(l.value for l in lits)
        txt = ''
        for i, (p, l) in enumerate(zip(parts, lits)):
            w = word if i == 0 else later
            txt += '%s%s %s // ' % (l.text, w, p['text'])
        txt += parts[-1]['text']
        E.note(txt)
        over = total > 100
        with sp.parsing(E):
            if over:
                try:
                    r = formulas.formula(txt, table=T)
                except Exception:   # noqa: BLE001
                    E.fact('percent_over_100_rejected', True)
                    return
                E.fact('percent_over_100_rejected', False, note=txt)
                return
            rest_ = 100 - total
            if kind == 'volume' and any((not p['known']) and (q > 0) for p, q in zip(parts, [l.value for l in lits] + [rest_])):
                try:
                    r = formulas.formula(txt, table=T)
                except Exception:   # noqa: BLE001
                    E.fact('volume_percent_without_density_rejected', True)
                    return
                E.fact('volume_percent_without_density_rejected', False, note=txt)
                return
            r = formulas.formula(txt, table=T)
        rest = 100 - total
        qs = [l.value for l in lits] + [rest if (rest > 0) else None]
        check_mix(E, 'percent', r, parts, qs, kind)
        # same as the corresponding call
        args = []
        for p, q in zip(parts, [l.value for l in lits] + [rest]):
            args += [p['f'], q]
        rc = (formulas.mix_by_weight if kind == 'weight' else formulas.mix_by_volume)(*args)
        u = parts[0]['unique']
        for x in rc.atoms:
            if x in r.atoms:
                E.eq('same_as_call.atoms[%s]' % x, r.atoms[x] * rc.atoms[u], rc.atoms[x] * r.atoms[u])
        E.fact('same_as_call.atom_set', set(r.atoms) == set(rc.atoms))
        if rc.density is not None and r.density is not None:
            E.eq('same_as_call.density', r.density, rc.density)
        else:
            E.fact('same_as_call.density_none', rc.density is None and r.density is None)
    return h


def _quantity_case(units, dens, spaces=(' ', ' ')):
    """'c1 g A // c2 mL B@d' : absolute masses / volumes"""
    def h(E):
        from periodictable import formulas
        sp.reset()
        n = len(units)
        T, _, _ = cm.sym_pool(E, 'c11s', [k for ks in COMP_KEYS[:n] for k in ks], neutron=False, natural=True, density=True)
        parts = _parts(E, T, n, dens)
        lits = [sp.Lit(E, 'amt%d' % i, 'fract' if i % 2 == 0 else 'whole') for i in range(n)]
        txt = ' // '.join('%s%s%s%s%s' % (l.text, spaces[0], u, spaces[1], p['text']) for l, u, p in zip(lits, units, parts))
        E.note(txt)
        need_density = [u in VOLUME_UNITS for u in units]
        with sp.parsing(E):
            if any(nd and not p['known'] for nd, p in zip(need_density, parts)):
                try:
                    r = formulas.formula(txt, table=T)
                except Exception:   # noqa: BLE001
                    E.fact('volume_without_density_rejected', True)
                    return
                E.fact('volume_without_density_rejected', False, note=txt)
                return
            r = formulas.formula(txt, table=T)
        qs = []
        for l, u, p in zip(lits, units, parts):
            if u in MASS_UNITS:
                qs.append(l.value * MASS_UNITS[u])
            else:
                qs.append(l.value * VOLUME_UNITS[u] * 1000 * p['f'].density)
        check_mix(E, 'quantity', r, parts, qs, 'weight')
        E.fact('has_total_mass', hasattr(r, 'total_mass'))
        if hasattr(r, 'total_mass'):
            E.eq('total_mass', r.total_mass, sum(qs))
    return h


def _layer_case(units, dens, repeat=None):
    """'c1 nm A // c2 um B' : layer thicknesses;  repeat: '(...)c3' """
    def h(E):
        from periodictable import formulas
        sp.reset()
        n = len(units)
        T, _, _ = cm.sym_pool(E, 'c11s', [k for ks in COMP_KEYS[:n] for k in ks], neutron=False, natural=True, density=True)
        parts = _parts(E, T, n, dens)
        lits = [sp.Lit(E, 'th%d' % i, 'whole' if i % 2 == 0 else 'fract') for i in range(n)]
        txt = ' // '.join('%s %s %s' % (l.text, u, p['text']) for l, u, p in zip(lits, units, parts))
        rep = None
        if repeat:
            rep = sp.Lit(E, 'rep', repeat)
            txt = '(' + txt + ')' + rep.text
        E.note(txt)
        with sp.parsing(E):
            if not all(p['known'] for p in parts):
                try:
                    r = formulas.formula(txt, table=T)
                except Exception:   # noqa: BLE001
                    E.fact('layer_without_density_rejected', True)
                    return
                E.fact('layer_without_density_rejected', False, note=txt)
                return
            r = formulas.formula(txt, table=T)
        qs = [l.value * LENGTH_UNITS[u] for l, u in zip(lits, units)]
        check_mix(E, 'layer', r, parts, qs, 'volume')
        E.fact('has_thickness', hasattr(r, 'thickness'))
        if hasattr(r, 'thickness'):
            E.eq('thickness', r.thickness, sum(qs) * (rep.value if rep else 1))
    return h


def _repeat_mass_case(E):
    """'(c1 g A // c2 g B)c3 // c4 g C'"""
    from periodictable import formulas
    sp.reset()
    T, _, _ = cm.sym_pool(E, 'c11s', [k for ks in COMP_KEYS[:3] for k in ks], neutron=False, natural=True, density=True)
    parts = _parts(E, T, 3, [True, 'element', False])
    l = [sp.Lit(E, 'amt%d' % i, 'whole') for i in range(3)]
    rep = sp.Lit(E, 'rep', 'whole')
    txt = '(%s g %s // %s mg %s)%s // %s g %s' % (l[0].text, parts[0]['text'], l[1].text, parts[1]['text'], rep.text, l[2].text, parts[2]['text'])
    E.note(txt)
    with sp.parsing(E):
        r = formulas.formula(txt, table=T)
    qs = [l[0].value * rep.value, l[1].value * 1e-3 * rep.value, l[2].value]
    check_mix(E, 'repeat_mass', r, parts, qs, 'weight')
    if hasattr(r, 'total_mass'):
        E.eq('total_mass', r.total_mass, sum(qs))
    else:
        E.fact('has_total_mass', False)


def _nested_string_case(suffix):
    """'c1 vol% (c2 wt% A@d // B@d)@d3<suffix> // C@d' : the group's density tag may be isotopic ('' / 'i') or natural ('n');
    component B contains deuterium, so the two differ"""
    def h(E):
        from periodictable import formulas
        sp.reset()
        T, _, _ = cm.sym_pool(E, 'c11s', [k for ks in COMP_KEYS[:3] for k in ks], neutron=False, natural=True, density=True)
        parts = _parts(E, T, 3, [True, True, True])
        p1 = sp.Lit(E, 'pct_outer', 'whole', hi=99)
        p2 = sp.Lit(E, 'pct_inner', 'fract', hi=99)
        d3 = sp.Lit(E, 'rho_inner', 'fract', hi=25)
        E.assume(p1.value < 100)
        E.assume(p2.value < 100)
        txt = '%svol%% (%s wt%% %s // %s)@%s%s // %s' % (p1.text, p2.text, parts[0]['text'], parts[1]['text'], d3.text, suffix, parts[2]['text'])
        E.note(txt)
        with sp.parsing(E):
            r = formulas.formula(txt, table=T)
        if suffix == 'n':
            inner = formulas.mix_by_weight(parts[0]['f'], p2.value, parts[1]['f'], 100 - p2.value, natural_density=d3.value)
        else:
            inner = formulas.mix_by_weight(parts[0]['f'], p2.value, parts[1]['f'], 100 - p2.value, density=d3.value)
        innerc = dict(f=inner, unique=parts[0]['unique'], known=True)
        check_mix(E, 'nested', r, [innerc, parts[2]], [p1.value, 100 - p1.value], 'volume')
        # and the inner proportions survive
        a, b = parts[0]['unique'], parts[1]['unique']
        ma, mb = comp_mass(parts[0]['f']), comp_mass(parts[1]['f'])
        na = r.atoms[a] / parts[0]['f'].atoms[a]
        nb = r.atoms[b] / parts[1]['f'].atoms[b]
        E.eq('nested.inner_mass_ratio', na * ma * (100 - p2.value), nb * mb * p2.value)
        # the parenthesised group alone, with its tag
        gtxt = '(%s wt%% %s // %s)@%s%s' % (p2.text, parts[0]['text'], parts[1]['text'], d3.text, suffix)
        with sp.parsing(E):
            g = formulas.formula(gtxt, table=T)
        E.eq('group_tag_density', g.density, inner.density)
    return h


def cases(tier):
    th = tier == 'thorough'
    mp = 256 if not th else 2048
    to = 20000 if not th else 60000
    out = []
    K, U, Sc = True, False, True
    api = [
        ('weight', [('compound', K, False), ('group', K, False)], None, None),
        ('volume', [('compound', K, False), ('group', K, False)], None, None),
        ('weight', [('compound', K, Sc), ('atom', K, False), ('group', K, False)], None, None),
        ('volume', [('atom', K, False), ('compound', K, Sc), ('group', K, False)], None, None),
        ('weight', [('compound', U, False), ('group', K, False)], None, None),
        ('volume', [('compound', U, False), ('group', K, False)], None, None),
        ('weight', [('compound', K, False), ('atom', K, False), ('group', K, False)], (1,), None),
        ('volume', [('compound', K, False), ('group', U, False)], (1,), None),
        ('weight', [('compound', K, False), ('compound', U, False), ('group', K, False)], (1,), None),
        ('weight', [('compound', K, False)], None, None),
        ('weight', [('compound', K, False), ('group', K, False)], None, 'density'),
        ('volume', [('compound', K, False), ('group', K, False)], None, 'natural_density'),
        ('weight', [('compound', U, False), ('atom', K, False)], None, 'name'),
    ]
    if th:
        api += [('weight', [('compound', K, Sc), ('atom', K, False), ('group', K, Sc), ('compound', K, False)], None, None),
                ('volume', [('compound', K, False), ('atom', K, Sc), ('group', K, False), ('compound', K, False)], None, None),
                ('weight', [('compound', K, False), ('compound', U, False), ('group', K, False)], (0, 2), None),
                ('volume', [('compound', K, False), ('atom', K, False), ('group', K, False)], (0, 1, 2), None)]
    for kind, spec, zero, kw in api:
        nm = 'api[%s|%s|zero=%s|kw=%s]' % (kind, ','.join('%s%s%s' % (s[0], '' if s[1] else '?', '*' if s[2] else '') for s in spec), zero, kw)
        out.append(Case(nm, _api_case(kind, spec, zero, kw), max_paths=mp, timeout_ms=to, portfolio=th))
    out.append(Case('scaling[weight]', _scaling_case('weight'), max_paths=mp, timeout_ms=to))
    out.append(Case('scaling[volume]', _scaling_case('volume'), max_paths=mp, timeout_ms=to))
    out.append(Case('nested_api', _nested_api_case, max_paths=mp, timeout_ms=to))
    out.append(Case('repeated_compound[weight]', _repeated_compound_case('weight'), max_paths=mp, timeout_ms=to))
    out.append(Case('repeated_compound[volume]', _repeated_compound_case('volume'), max_paths=mp, timeout_ms=to))
    pct = [('weight', 'wt%', '%', 3, [True, 'element', True]), ('weight', '%wt', 'wt%', 2, [False, True]),
           ('weight', 'mass%', '%', 2, [True, True]), ('weight', ' weight %', '%', 2, ['element', False]),
           ('volume', 'vol%', '%', 3, [True, 'element', True]), ('volume', '%vol', 'vol%', 2, ['element', True]),
           ('volume', 'volume%', '%', 2, [True, False]), ('weight', '%w', '%', 2, [True, True]), ('volume', 'v%', '%', 2, [True, True]),
           ('weight', '%mass', '% mass', 2, [True, True]), ('weight', 'm%', 'wt %', 2, [True, True]),
           ('volume', 'vol%', 'vol%', 3, [True, 'element_counted', True]), ('weight', 'wt%', 'wt%', 3, ['element_counted', True, False]),
           ('volume', '%vol', ' volume %', 3, ['element_counted', 'element_counted', 'element']),
           ('weight', '%mass', '% mass', 3, [True, 'element', True])]
    for kind, w, later, n, dens in pct:
        out.append(Case('string_percent[%s|%s|%s|n=%d|%s]' % (kind, w.strip(), later.strip(), n, dens), _percent_case(kind, w, later, n, dens),
                        max_paths=mp, timeout_ms=to, float_modules=()))
    units_sets = [(['g', 'mL'], [False, True]), (['kg', 'mg', 'ug'], [True, 'element', False]), (['ng', 'L'], ['element', True]),
                  (['uL', 'nL'], [True, 'element']), (['mL', 'g'], [False, True])]
    for us, dens in units_sets:
        out.append(Case('string_quantity[%s|%s]' % (','.join(us), dens), _quantity_case(us, dens), max_paths=mp, timeout_ms=to))
    for u in ('nL', 'uL', 'mL', 'L', 'kg', 'ng'):
        out.append(Case('string_quantity[%s first,g]' % u, _quantity_case([u, 'g'], [True, True], spaces=('', ' ') if u in ('L', 'kg') else (' ', ' ')), max_paths=mp, timeout_ms=to))
    out.append(Case('string_quantity[nospace g,mg]', _quantity_case(['g', 'mg'], [True, True], spaces=('', ' ')), max_paths=mp, timeout_ms=to))
    for us, dens, rep in [(['nm', 'um'], ['element', True], None), (['mm', 'cm', 'nm'], [True, 'element', True], None),
                          (['nm', 'nm'], ['element', 'element'], 'whole'), (['um', 'nm'], [True, False], None)]:
        out.append(Case('string_layer[%s|%s|rep=%s]' % (','.join(us), dens, rep), _layer_case(us, dens, rep), max_paths=mp, timeout_ms=to))
    out.append(Case('string_repeat_mass', _repeat_mass_case, max_paths=mp, timeout_ms=to))
    for suf in ('', 'n', 'i'):
        out.append(Case('string_nested[@d%s]' % suf, _nested_string_case(suf), max_paths=mp, timeout_ms=to))
    return out
