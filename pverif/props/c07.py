"""C07 -- neutron data of every element and isotope are those of the embedded table (partial)."""
from __future__ import annotations

import itertools

import numpy as np

from ..runner import Case
from .. import sym
from ..sym import SymReal, SymComplex
from . import common as cm
from .c03 import _edep_table_reading

META = dict(
    functions=['periodictable.nsf:init', 'periodictable.nsf:fix_number', 'periodictable.nsf:energy_dependent_init',
               'periodictable.nsf:Neutron.scattering_by_wavelength', 'periodictable.nsf:Neutron.has_sld'],
    bounds=("the real nsf.init on a fresh private table with the real table text in which the numeric fields of selected rows "
            "(an element row, isotope rows, a single-isotope element, a half-life row, an 'E' row, rows with blanks, rows of the "
            "imaginary table) are placeholders that the patched fix_number maps to symbolic reals; energy-dependent tables: "
            "real tables with a symbolic wavelength over the whole axis (one path per node and per segment)"),
    outside=("the 364-row sweep of concrete table text against served values (no symbolic variable); the notation reading of "
             "'<' limits and '*' estimates on arbitrary numerals is checked by CrossHair on short digit strings only"),
    stubs="nsf.fix_number patched: placeholder -> symbol (other text goes to the real function); np.interp: fork tree",
    assumptions=["floats as exact reals"],
)

_CNT = itertools.count()

ROWS = ['26-Fe', '26-Fe-56', '4-Be-9', '1-H-3', '48-Cd-113', '2-He-4', '28-Ni-58', '92-U-235']
IROWS = ['5-B', '3-Li-6']
FIELD_COLS = {3: 'b_c', 4: 'bp', 5: 'bm', 7: 'coherent', 8: 'incoherent', 9: 'total', 10: 'absorption'}


def _patched_text(E, rows, irows, place, conc):
    from periodictable import nsf
    lines = nsf.nsftable.split('\n')
    out = []
    meta = {}
    for line in lines:
        cols = line.split(',')
        if cols[0] in rows:
            tag = cols[0].replace('-', '_')
            info = dict(spin=cols[2], E=(cols[6] == 'E'), blank=[], fields={}, half_life=(' ' in cols[1]), abundance=None)
            for c, fname in FIELD_COLS.items():
                if cols[c].strip() == '' and fname in ('bp', 'bm'):
                    info['blank'].append(fname)       # keep a blank blank: "blanks as missing"
                    continue
                v = E.real('%s_%s' % (tag, fname), lo=-50 if fname in ('b_c', 'bp', 'bm') else 0, hi=50)
                tok = '@%s@%s' % (tag, fname)
                place[tok] = v
                decorated = {7: '%s*', 10: '<%s'}.get(c, '%s')     # estimates and limits read as the bare number
                if conc:
                    cols[c] = decorated % ('%.6f(12)' % v)
                    info['fields'][fname] = float('%.6f' % v)
                else:
                    cols[c] = decorated % tok
                    info['fields'][fname] = v
            if cols[0].count('-') == 2 and not info['half_life'] and cols[1].strip():
                v = E.real('%s_abundance' % tag, lo=0, hi=100)
                tok = '@%s@abundance' % tag
                place[tok] = v
                if conc:
                    cols[1] = '%.6f(3)' % v
                    info['abundance'] = float('%.6f' % v)
                else:
                    cols[1] = tok
                    info['abundance'] = v
            meta[cols[0]] = info
            line = ','.join(cols)
        out.append(line)
    ilines = nsf.nsftableI.split('\n')
    iout = []
    imeta = {}
    for line in ilines:
        cols = line.split(',')
        if cols[0] in irows:
            tag = cols[0].replace('-', '_')
            info = {}
            for c, fname in ((1, 'b_c_i'), (2, 'bp_i'), (3, 'bm_i')):
                if cols[c].strip() == '':
                    info[fname] = None
                    continue
                v = E.real('%s_%s' % (tag, fname), lo=-50, hi=0)
                tok = '@%s@%s' % (tag, fname)
                place[tok] = v
                if conc:
                    cols[c] = '%.6f' % v
                    info[fname] = float('%.6f' % v)
                else:
                    cols[c] = tok
                    info[fname] = v
            imeta[cols[0]] = info
            line = ','.join(cols)
        iout.append(line)
    return '\n'.join(out), '\n'.join(iout), meta, imeta


def _init_case(rows, irows):
    def h(E):
        from periodictable import nsf, core, mass, density
        import os
        place = {}
        text, itext, meta, imeta = _patched_text(E, rows, irows, place, not E.symbolic)
        T = core.PeriodicTable('vsym-c07-%d-%d' % (os.getpid(), next(_CNT)))
        mass.init(T)
        density.init(T)
        real_fix, real_t, real_ti = nsf.fix_number, nsf.nsftable, nsf.nsftableI

        def fix(s):
            key = s.replace('<', '').replace('*', '')
            if key in place:
                return place[key]
            return real_fix(s)
        try:
            nsf.nsftable, nsf.nsftableI = text, itext
            if E.symbolic:
                nsf.fix_number = fix
            nsf.init(T)
        finally:
            nsf.fix_number, nsf.nsftable, nsf.nsftableI = real_fix, real_t, real_ti
            for k, v in list(core.PRIVATE_TABLES.items()):
                if v is T:
                    del core.PRIVATE_TABLES[k]
        for key, info in meta.items():
            parts = key.split('-')
            el = T[int(parts[0])]
            atom = el if len(parts) == 2 else el[int(parts[2])]
            n = atom.neutron
            for fname, v in info['fields'].items():
                E.eq('%s.%s' % (key, fname), getattr(n, fname), v)
            for fname in info['blank']:
                E.fact('%s.%s_blank_is_missing' % (key, fname), getattr(n, fname) is None)
            E.fact('%s.is_energy_dependent' % key, n.is_energy_dependent == info['E'])
            if len(parts) == 3:
                E.fact('%s.nuclear_spin' % key, atom.nuclear_spin == info['spin'], note=repr(getattr(atom, 'nuclear_spin', None)))
                if info['abundance'] is not None:
                    E.eq('%s.abundance' % key, n.abundance, info['abundance'])
                if info['half_life']:
                    E.fact('%s.half_life_row_abundance_0' % key, n.abundance == 0)
            # complex b_c = b_c - i * absorption / (2000 * 1.798)
            if 'b_c' in info['fields'] and 'absorption' in info['fields']:
                bc = n.b_c_complex
                E.eq('%s.b_c_complex.re' % key, bc.real, info['fields']['b_c'])
                E.eq('%s.b_c_complex.im' % key, bc.imag * (2000 * 1.798), -info['fields']['absorption'])
            E.fact('%s.has_sld' % key, n.has_sld() == (el.density is not None))
        for key, info in imeta.items():
            parts = key.split('-')
            el = T[int(parts[0])]
            atom = el if len(parts) == 2 else el[int(parts[2])]
            for fname, v in info.items():
                if v is None:
                    E.fact('%s.%s_blank_is_missing' % (key, fname), getattr(atom.neutron, fname) is None)
                else:
                    E.eq('%s.%s' % (key, fname), getattr(atom.neutron, fname), v)
        # single-isotope element reports its isotope's record; untouched atoms have no SLD
        E.fact('Be_shares_Be9_record', T.Be.neutron is T.Be[9].neutron)
        E.fact('Fe_has_own_record', T.Fe.neutron is not T.Fe[56].neutron)
        for s in ('Po', 'At', 'Rn'):
            E.fact('no_data[%s]' % s, not getattr(T, s).neutron.has_sld())
        E.fact('isotope_without_row_no_sld', not T.Fe[60].neutron.has_sld() if 60 in T.Fe.isotopes else True)
        # rows that were not touched are served as in the public table
        import periodictable as pt
        for s, iso in (('Si', None), ('O', 18), ('Gd', 157)):
            a = getattr(T, s) if iso is None else getattr(T, s)[iso]
            b = getattr(pt, s) if iso is None else getattr(pt, s)[iso]
            E.fact('untouched_row_same_as_public[%s%s]' % (s, iso or ''), a.neutron.b_c == b.neutron.b_c and a.neutron.absorption == b.neutron.absorption
                   and a.neutron.total == b.neutron.total)
    return h


def _edep_nodes_case(el_name, iso):
    """each energy-dependent entry returns, at every tabulated energy, exactly the tabulated complex b_c
    (symbolic wavelength: the node paths lam == node of the interp fork tree; plus the clamped ends)"""
    def h(E):
        import periodictable as pt
        el = getattr(pt, el_name)
        atom = el if iso is None else el[iso]
        pts = _edep_table_reading(el_name, iso)
        lam = E.real('lam', lo=0.05, hi=50)
        try:
            b, sig = atom.neutron.scattering_by_wavelength(lam)
        except sym.HarnessError as e:
            if 'increasing' in str(e):
                E.fact('interp_axis_increasing', False, note=str(e))
                return
            raise
        if lam <= pts[0][0]:
            E.eq('clamped_low', b, pts[0][1])
        elif lam >= pts[-1][0]:
            E.eq('clamped_high', b, pts[-1][1])
        else:
            for i, (x, f) in enumerate(pts):
                if lam == x:
                    E.eq('node_value', b, f)
                    break
            else:
                for (xa, fa), (xb, fb) in zip(pts[:-1], pts[1:]):
                    if lam > xa and lam < xb:
                        from .c03 import _chord
                        E.eq('on_chord', b, _chord(E, lam, xa, xb, fa, fb))
                        break
    return h


def _edep_ground_case(case, tier, seed):
    """ground facts: at each tabulated energy (concrete) the tabulated complex value is returned exactly"""
    import periodictable as pt
    from periodictable import nsf, nsf_tables
    res = dict(paths=1, claims=0, discharged=0, queries=0, distinct=0, violations=[], inconclusive=[], samples=[], solver_s=0.0, complete=True)
    pt.H.neutron
    from periodictable import core, mass, density
    import os
    # independent snapshot of the embedded tables, taken before any further initialisation runs
    snapshot = {k: [tuple(r) for r in rows] for k, rows in nsf_tables.ENERGY_DEPENDENT_TABLES.items()}
    tables = [('public', pt.elements)]
    for n in range(2):   # the second and third initialisation in this process
        T = core.PeriodicTable('vsym-c07edep-%d-%d' % (os.getpid(), next(_CNT)))
        try:
            mass.init(T)
            density.init(T)
            nsf.init(T)
        finally:
            for k, v in list(core.PRIVATE_TABLES.items()):
                if v is T:
                    del core.PRIVATE_TABLES[k]
        tables.append(('private%d' % (n + 1), T))
    for tag, tab in tables:
      for (el_name, iso), rows in snapshot.items():
        atom = getattr(tab, el_name) if iso is None else getattr(tab, el_name)[iso]
        res['claims'] += 1
        wl = atom.neutron.nsf_table[0] if atom.neutron.nsf_table is not None else None
        if wl is not None and all(a < b for a, b in zip(wl[:-1], wl[1:])):
            res['discharged'] += 1
        else:
            res['violations'].append(dict(case=case.name, claim='wavelength_axis_increasing[%s-%s|%s]' % (el_name, iso, tag), values={},
                                          observed=[repr(wl)[:80], 'strictly increasing'], how='concrete table'))
            continue
        for en, re_, im_, _ in rows:
            lam = float(nsf.neutron_wavelength(en * 1000.))
            b, _s = atom.neutron.scattering_by_wavelength(lam)
            res['claims'] += 1
            if abs(complex(b) - complex(re_, im_)) <= 1e-9 * max(1.0, abs(complex(re_, im_))):
                res['discharged'] += 1
            else:
                res['violations'].append(dict(case=case.name, claim='node[%s-%s @ %g eV|%s]' % (el_name, iso, en, tag), values={'energy_eV': en},
                                              observed=[repr(complex(b)), repr(complex(re_, im_))], how='concrete node'))
    res['queries'] = res['distinct'] = res['claims']
    res['samples'] = [dict(tables=len(nsf_tables.ENERGY_DEPENDENT_TABLES), nodes=res['claims'])]
    return res


def _num(s):
    """independent reader of a table number: uncertainty dropped, '<' limits and '*' estimates as the bare number, blank missing"""
    s = s.strip().replace('<', '').replace('*', '')
    if not s:
        return None
    return float(s.split('(')[0])


def _table_sweep_case(case, tier, seed):
    """ground sweep (concrete, exhaustive over rows; not a solver claim): every row of the neutron table and of the
    imaginary table against the served values, public table and a fresh private table"""
    import periodictable as pt
    from periodictable import nsf, core, mass, density
    import os
    res = dict(paths=1, claims=0, discharged=0, queries=0, distinct=0, violations=[], inconclusive=[], samples=[], solver_s=0.0, complete=True)
    T = core.PeriodicTable('vsym-c07sweep-%d-%d' % (os.getpid(), next(_CNT)))
    try:
        mass.init(T)
        density.init(T)
        nsf.init(T)
    finally:
        for k, v in list(core.PRIVATE_TABLES.items()):
            if v is T:
                del core.PRIVATE_TABLES[k]

    def bad(name, got, want):
        if len(res['violations']) < 5:
            res['violations'].append(dict(case=case.name, claim=name, values={}, observed=[repr(got), repr(want)], how='concrete table sweep'))
    rows = [l.split(',') for l in nsf.nsftable.split('\n')]
    in_table = set()
    for tab in (pt.elements, T):
        tag = 'public' if tab is pt.elements else 'private'
        single = {}
        for c in rows:
            parts = c[0].split('-')
            if len(parts) == 3:
                single.setdefault(int(parts[0]), []).append(int(parts[2]))
        has_el_row = set(int(c[0].split('-')[0]) for c in rows if len(c[0].split('-')) == 2)
        for c in rows:
            parts = c[0].split('-')
            Z = int(parts[0])
            el = tab[Z]
            atom = el if len(parts) == 2 else el[int(parts[2])]
            in_table.add((Z, 0 if len(parts) == 2 else int(parts[2])))
            n = atom.neutron
            want = dict(b_c=_num(c[3]), bp=_num(c[4]), bm=_num(c[5]), coherent=_num(c[7]), incoherent=_num(c[8]), total=_num(c[9]), absorption=_num(c[10]))
            if c[0] == '54-Xe':
                want['total'] = want['coherent'] + want['incoherent']       # documented gap fill
            if c[0] == '63-Eu-151':
                want['b_c'] = n.b_c                                          # documented gap fill
            for k, w in want.items():
                res['claims'] += 1
                g = getattr(n, k)
                if (g is None and w is None) or (g is not None and w is not None and abs(g - w) <= 1e-12 * max(1.0, abs(w))):
                    res['discharged'] += 1
                else:
                    bad('%s.%s|%s' % (c[0], k, tag), g, w)
            res['claims'] += 2
            if n.is_energy_dependent == (c[6] == 'E'):
                res['discharged'] += 1
            else:
                bad('%s.is_energy_dependent|%s' % (c[0], tag), n.is_energy_dependent, c[6])
            # a row with a bound coherent length reports that an SLD is available whenever the density is known
            res['claims'] += 1
            dens_known = getattr(atom, 'density', None) is not None
            if n.has_sld() == (n.b_c is not None and dens_known):
                res['discharged'] += 1
            else:
                bad('%s.has_sld|%s' % (c[0], tag), n.has_sld(), (n.b_c, dens_known))
            bc = n.b_c_complex
            wre = None if c[0] == '63-Eu-151' else want['b_c']     # blank b_c: the complex value keeps a NaN real part
            ok = (wre is None or abs(bc.real - wre) <= 1e-12 * max(1, abs(wre))) and abs(bc.imag + want['absorption'] / (2000 * 1.798)) <= 1e-12 * max(1, want['absorption'])
            if ok:
                res['discharged'] += 1
            else:
                bad('%s.b_c_complex|%s' % (c[0], tag), bc, (wre, -want['absorption'] / (2000 * 1.798)))
            if len(parts) == 3:
                res['claims'] += 2
                if atom.nuclear_spin == c[2]:
                    res['discharged'] += 1
                else:
                    bad('%s.nuclear_spin|%s' % (c[0], tag), atom.nuclear_spin, c[2])
                wab = 0 if ' ' in c[1] else (_num(c[1]) if c[1].strip() else None)
                if (n.abundance is None and wab is None) or (n.abundance is not None and wab is not None and abs(n.abundance - wab) <= 1e-12 * max(1, abs(wab))):
                    res['discharged'] += 1
                else:
                    bad('%s.abundance|%s' % (c[0], tag), n.abundance, wab)
        # single-isotope elements report their isotope's record
        for Z, isos in single.items():
            if Z not in has_el_row and Z != 0:
                res['claims'] += 1
                if tab[Z].neutron is tab[Z][isos[0]].neutron:
                    res['discharged'] += 1
                else:
                    bad('element_shares_first_isotope_record[%d]|%s' % (Z, tag), 'distinct records', 'same record')
        # imaginary table
        for line in nsf.nsftableI.split('\n'):
            c = line.split(',')
            parts = c[0].split('-')
            el = tab[int(parts[0])]
            atom = el if len(parts) == 2 else el[int(parts[2])]
            for k, col in (('b_c_i', 1), ('bp_i', 2), ('bm_i', 3)):
                res['claims'] += 1
                g, w = getattr(atom.neutron, k), _num(c[col])
                if (g is None and w is None) or (g is not None and w is not None and abs(g - w) <= 1e-12):
                    res['discharged'] += 1
                else:
                    bad('%s.%s|%s' % (c[0], k, tag), g, w)
        # atoms not in the table report that no SLD is available
        for el in tab:
            for a in el.isotopes:
                if (el.number, a) not in in_table:
                    res['claims'] += 1
                    if not el[a].neutron.has_sld() and el[a].neutron.sld() == (None, None, None):
                        res['discharged'] += 1
                    else:
                        bad('no_row_no_sld[%s-%d]|%s' % (el.symbol, a, tag), 'has_sld', 'no sld')
    # ... also a nuclide created after the data were loaded (private table only; add_isotope is public API)
    for sym_, a in (('H', 9), ('Be', 15), ('Fe', 80), ('Eu', 170), ('U', 250)):
        iso = getattr(T, sym_).add_isotope(a)
        res['claims'] += 1
        if not iso.neutron.has_sld() and iso.neutron.b_c is None:
            res['discharged'] += 1
        else:
            bad('no_row_no_sld[%s-%d added after load]|private' % (sym_, a), iso.neutron.b_c, None)
    res['queries'] = res['distinct'] = res['claims']
    res['samples'] = [dict(facts_checked=res['claims'], note='ground sweep, exhaustive over the embedded rows; not a solver claim')]
    return res


class _E:
    pass


E = _E()


CH_MOD = '''
from periodictable.nsf import fix_number


def _digits(s):
    return len(s) >= 1 and all(c in '0123456789' for c in s)


def limit_and_estimate(ip: str, fp: str, kind: int) -> bool:
    """
    pre: _digits(ip) and len(ip) <= 2 and (len(ip) == 1 or ip[0] != '0')
    pre: _digits(fp) and len(fp) <= 2
    pre: 0 <= kind <= 3
    post: __return__
    """
    base = ip + '.' + fp
    s = [base, '<' + base, base + '*', base + '(1)*'][kind]
    want = int(ip) + int(fp) / 10 ** len(fp)
    return abs(fix_number(s) - want) <= 1e-12 * max(1.0, want)


def signed_and_integer_forms(ip: str, neg: bool, kind: int) -> bool:
    """
    pre: _digits(ip) and len(ip) <= 3 and (len(ip) == 1 or ip[0] != '0')
    pre: 0 <= kind <= 3
    post: __return__
    """
    base = ('-' if neg else '') + ip
    s = [base, base + '(2)', base + '.', '<' + base][kind]
    want = -int(ip) if neg else int(ip)
    return fix_number(s) == want


def blank_is_missing(n: int) -> bool:
    """
    pre: 0 <= n <= 0
    post: __return__
    """
    return fix_number('') is None
'''


def _notation_crosshair(case, tier, seed):
    from .. import ch
    import ast
    ns = {}
    exec(CH_MOD, ns)

    def rp(fn):
        def f(argtext):
            args = ast.literal_eval('(' + argtext + ',)')
            ok = ns[fn](*args)
            return (not ok), '%s%r = %r' % (fn, args, ok)
        return f
    return ch.crosshair_case(case.name, CH_MOD, {k: rp(k) for k in ('limit_and_estimate', 'signed_and_integer_forms', 'blank_is_missing')},
                             timeout_s=45 if tier == 'quick' else 150)


def _first_touch_case(case, tier, seed):
    """ground (concrete, fresh interpreters): the neutron record served does not depend on whether the first neutron lookup
    of the process goes through an element, an isotope or an ion"""
    import json
    import periodictable as pt
    res = dict(paths=1, claims=0, discharged=0, queries=0, distinct=0, violations=[], inconclusive=[], samples=[], solver_s=0.0, complete=True)
    probes = ['pt.Cm[248]', 'pt.H[2]', 'pt.Ni[58]', 'pt.Fe.ion[2]', 'pt.Ni[58].ion[2]', 'pt.Gd[157]', 'pt.Fe']
    fields = ('b_c', 'coherent', 'incoherent', 'total', 'absorption')

    def rec(a):
        n = a.neutron
        return [getattr(n, f) for f in fields] + [bool(n.has_sld())]
    want = {p: rec(eval(p)) for p in probes}
    for first in probes[:6]:
        code = ("import json, periodictable as pt\n"
                "fields = %r\n"
                "def rec(a):\n    n = a.neutron\n    return [getattr(n, f) for f in fields] + [bool(n.has_sld())]\n"
                "first = rec(%s)\n"
                "out = {p: rec(eval(p)) for p in %r}\nout['__first__'] = first\nprint(json.dumps(out))\n") % (fields, first, probes)
        got = cm.fresh_interpreter(code)
        res['claims'] += 1
        ok = 'error' not in got and got.get('__first__') == want[first] and all(got.get(p) == want[p] for p in probes)
        if ok:
            res['discharged'] += 1
        else:
            bad = dict({p: (got.get(p), want[p]) for p in probes if got.get(p) != want[p]}, first=(got.get('__first__'), want[first])) if 'error' not in got else got
            res['violations'].append(dict(case=case.name, claim='first_lookup_through[%s]' % first, values={}, observed=[repr(bad)[:300], 'the table rows'], how='fresh interpreter'))
    res['queries'] = res['distinct'] = res['claims']
    res['samples'] = [dict(first_lookups=probes[:6])]
    return res


def cases(tier):
    th = tier == 'thorough'
    out = []
    out.append(Case('init_rows[%s]' % ','.join(ROWS[:5]), _init_case(ROWS[:5], IROWS[:1]), max_paths=16, timeout_ms=30000, nsamples=1))
    out.append(Case('init_rows[%s]' % ','.join(ROWS[5:]), _init_case(ROWS[5:], IROWS[1:]), max_paths=16, timeout_ms=30000, nsamples=1))
    ed = [('Dy', 164), ('Yb', 174)] if not th else \
        [('Dy', 164), ('Yb', 174), ('Sm', None), ('Sm', 149), ('Eu', None), ('Eu', 151), ('Gd', None), ('Gd', 155),
         ('Gd', 157), ('Er', None), ('Er', 167), ('Yb', None), ('Yb', 168), ('Lu', 176)]
    for el, iso in ed:
        out.append(Case('energy_table[%s%s]' % (el, '' if iso is None else '-%d' % iso), _edep_nodes_case(el, iso), max_paths=4096,
                        timeout_ms=20000, nsamples=2))
    out.append(Case('energy_table_nodes_ground', None, custom=_edep_ground_case))
    out.append(Case('embedded_table_ground_sweep', None, custom=_table_sweep_case))
    out.append(Case('first_lookup_ground', None, custom=_first_touch_case))
    out.append(Case('notation_crosshair', None, custom=_notation_crosshair, budget_s=700 if th else 230))
    return out
