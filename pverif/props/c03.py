"""C03 -- neutron SLD, cross sections and penetration follow the documented equations."""
from __future__ import annotations

import itertools
import math

import numpy as np

from ..runner import Case
from .. import sym
from . import common as cm

_CNT = itertools.count()

META = dict(
    functions=['periodictable.nsf:neutron_scattering', 'periodictable.nsf:_calculate_scattering',
               'periodictable.nsf:neutron_sld', 'periodictable.nsf:Neutron.scattering_by_wavelength',
               'periodictable.nsf:Neutron.scattering', 'periodictable.nsf:Neutron.sld',
               'periodictable.nsf:neutron_wavelength', 'periodictable.nsf:energy_dependent_init',
               'periodictable.nsf:init', 'periodictable.formulas:Formula.natural_mass_ratio',
               'periodictable.density:number_density'],
    bounds=("compounds of 1-3 (thorough: 4) atoms drawn from {element, isotope, D, ion, isotope ion}; all counts, "
            "density/natural_density, wavelength/energy and (private table) every atom's mass, complex b_c and "
            "sigma_s symbolic reals; energy-dependent atoms: real tables, symbolic wavelength over the whole axis "
            "(one path per table segment/node); path budget 64 quick / 512 thorough per case"),
    outside="floating-point rounding; numpy's C implementation of interp (exact semantic model used instead)",
    stubs="sqrt: r>=0 & r*r==x; np.maximum: fork; np.interp: fork tree over the concrete node arrays",
    assumptions=["Python floats are modelled as exact reals (binary value of every constant)",
                 "Im b_c <= 0 (absorption >= 0) for every atom: holds for all table rows, checked in C07",
                 "sigma_i = sigma_s - sigma_c is compared on the region sigma_s >= sigma_c (documented equation); below it sigma_i = 0"],
)


def _pool(T):
    return dict(X=T.Fe, Xi=T.Fe[56], D=T.D, Xq=T.Fe.ion[2], Xiq=T.Fe[56].ion[3], Y=T.O, Yi=T.O[18],
                Z=T.Si, H=T.H, H1=T.H[1])


def _compound_case(keys, dens_kind, wl_kind):
    def h(E):
        from periodictable import nsf, formulas
        T = cm.private_table('c03', neutron=True)
        P = _pool(T)
        atoms = [P[k] for k in keys]
        data = {}
        seen = {}
        for k, a in zip(keys, atoms):
            b = cm.base_of(a)
            if b not in seen:
                cm.sym_mass(E, b, k)
                cm.sym_neutron(E, b, k)
                seen[b] = k
        # natural element masses needed by natural_density: element of an isotope
        for k, a in zip(keys, atoms):
            b = cm.base_of(a)
            el = getattr(b, 'element', None)
            if el is not None and el not in seen:
                cm.sym_mass(E, el, k + 'nat')
                seen[el] = k + 'nat'
        counts = [E.real('c_' + k, lo=0, lo_open=True, hi=1000) for k in keys]
        for k, a in zip(keys, atoms):
            data[k] = cm.atom_data(a)
        rho = E.real('rho', lo=0, lo_open=True, hi=25)
        f = formulas.formula([(c, a) for c, a in zip(counts, atoms)])
        kw = {}
        if dens_kind == 'density':
            kw['density'] = rho
            dens = rho
        else:
            kw['natural_density'] = rho
            # natural density -> density at unchanged cell volume: every isotope replaced by its natural element, charges
            # kept (independent of the library's own conversion, which is C12's subject and is checked there)
            from .c12 import natural_counterpart_mass
            from .c02 import oracle_mass
            dens = rho * sum(c * oracle_mass(a) for c, a in zip(counts, atoms)) / sum(c * natural_counterpart_mass(a) for c, a in zip(counts, atoms))
        if wl_kind == 'wavelength':
            lam = E.real('lam', lo=0.05, hi=50)
            kw['wavelength'] = lam
        elif wl_kind == 'energy':
            en = E.real('energy', lo=0.03, hi=33000)
            kw['energy'] = en
            # documented: E = h^2/(2 m_n lambda^2)  =>  lambda^2 * E = ENERGY_FACTOR
            lam = nsf.neutron_wavelength(en)
            if E.symbolic:
                lam = lam.item() if isinstance(lam, np.ndarray) else lam
            else:
                lam = float(lam)
            E.eq('lambda_sq_E', lam * lam * en, nsf.ENERGY_FACTOR)
        else:
            lam = nsf.ABSORPTION_WAVELENGTH
        snap = cm.Snapshot(compound=f)
        result = nsf.neutron_scattering(f, **kw)
        snap.check(E, 'neutron_scattering')
        o = cm.neutron_oracle(list(zip(counts, keys)), data, dens, lam)
        if o['sigma_s'] >= o['sigma_c']:
            cm.claim_neutron(E, '', result, o)
        else:
            (sre, sim, sinc), (coh, ab, inc), pen = result
            E.eq('sld_re', sre, o['rho_re'])
            E.eq('sld_im', sim, o['rho_im'])
            E.eq('coh_xs', coh, o['coh'])
            E.eq('abs_xs', ab, o['abs'])
            E.eq('inc_xs_zero', inc, 0)
            E.eq('sld_inc_zero', sinc, 0)
            E.eq('penetration', pen * (o['abs'] + o['tot']), 1)
        if wl_kind == 'energy':
            # "If energy is specified then wavelength is ignored"
            both = nsf.neutron_scattering(f, wavelength=E.real('lam_ignored', lo=0.05, hi=50), **kw)
            for nm, x, y in zip(('sld_re', 'sld_im', 'sld_inc'), both[0], result[0]):
                E.eq('energy_overrides_wavelength.' + nm, x, y)
            for nm, x, y in zip(('coh', 'abs', 'inc'), both[1], result[1]):
                E.eq('energy_overrides_wavelength.' + nm, x, y)
            E.eq('energy_overrides_wavelength.pen', both[2], result[2])
        sld_only = nsf.neutron_sld(f, **kw)
        E.eq('neutron_sld.re', sld_only[0], result[0][0])
        E.eq('neutron_sld.im', sld_only[1], result[0][1])
        # a Formula object that carries its own density: the density keyword given in the call decides
        own = formulas.formula(f, density=E.real('rho_own', lo=0, lo_open=True, hi=25))
        sld_own = nsf.neutron_sld(own, **kw)
        E.eq('formula_object_with_own_density.re', sld_own[0], result[0][0])
        E.eq('formula_object_with_own_density.im', sld_own[1], result[0][1])
    return h


def _direct_case(sym_el, iso):
    """element / isotope queried directly == one-atom compound at that atom's density;
    runs the real nsf.init on a private table whose element mass and density are symbolic."""
    def h(E):
        from periodictable import nsf
        # a freshly initialised private table each time (nsf.init(reload=True) keeps the old record of
        # single-isotope elements, which is not what this case is about)
        from periodictable import core, mass, density
        import os
        T = core.PeriodicTable('vsym-c03d-%s-%d-%d' % (sym_el, os.getpid(), next(_CNT)))
        try:
            mass.init(T)
            density.init(T)
            el = getattr(T, sym_el)
            el._mass = E.real('m_el', lo=0.5, hi=300)
            el._density = E.real('rho_el', lo=0.01, hi=25)
            atom = el if iso is None else el[iso]
            if iso is not None:
                atom._mass = E.real('m_iso', lo=0.5, hi=300)
            nsf.init(T)
        finally:
            for k, v in list(core.PRIVATE_TABLES.items()):
                if v is T:
                    del core.PRIVATE_TABLES[k]
        lam = E.real('lam', lo=0.05, hi=50)
        direct = atom.neutron.scattering(wavelength=lam)
        comp = nsf.neutron_scattering(atom, density=atom.density, wavelength=lam)
        E.fact('direct_not_none', direct[0] is not None)
        names = ['sld_re', 'sld_im', 'sld_inc', 'coh', 'abs', 'inc', 'pen']
        dv = list(direct[0]) + list(direct[1]) + [direct[2]]
        cv = list(comp[0]) + list(comp[1]) + [comp[2]]
        for n, a, b in zip(names, dv, cv):
            E.eq('direct_vs_compound.' + n, a, b)
        s = atom.neutron.sld(wavelength=lam)
        E.eq('sld_method.re', s[0], cv[0])
        E.eq('sld_method.im', s[1], cv[1])
        # documented number density N = rho*N_A/m (per cm^3) of the element
        E.eq('number_density', atom.neutron._number_density * el._mass, el._density * cm.N_A)
    return h


def _integer_wavelength_case(kind):
    """wavelengths given as Python ints / an integer-typed array / a list: same numbers as the float scalars"""
    def h(E):
        from periodictable import nsf, formulas
        T, atoms, data = cm.sym_pool(E, 'c03', ['H', 'D', 'Y'], natural=False)
        counts = [E.real('c_%s' % k, lo=0, lo_open=True, hi=1000) for k in ('H', 'D', 'Y')]
        rho = E.real('rho', lo=0, lo_open=True, hi=25)
        f = formulas.formula(list(zip(counts, atoms)))
        lams = [1, 2, 5]
        arg = {'int_array': np.array(lams), 'int_list': list(lams), 'arange': np.arange(1, 4), 'tuple': tuple(lams)}[kind]
        lams = list(np.asarray(arg))
        vec = nsf.neutron_scattering(f, density=rho, wavelength=arg)
        vflat = list(vec[0]) + list(vec[1]) + [vec[2]]
        names = ['sld_re', 'sld_im', 'sld_inc', 'coh', 'abs', 'inc', 'pen']
        for i, l in enumerate(lams):
            sc = nsf.neutron_scattering(f, density=rho, wavelength=float(l))
            sflat = list(sc[0]) + list(sc[1]) + [sc[2]]
            for nm, v, sv in zip(names, vflat, sflat):
                ok = isinstance(v, np.ndarray) and v.shape == (len(lams),)
                E.fact('integer_wavelengths.shape.' + nm, ok, note=repr(getattr(v, 'shape', None)))
                if ok:
                    E.eq('integer_wavelengths[%d].%s' % (i, nm), v[i], sv)
        # and the element queried directly
        d = atoms[0].neutron.scattering(wavelength=arg)
        for i, l in enumerate(lams):
            ds = atoms[0].neutron.scattering(wavelength=float(l))
            E.eq('integer_wavelengths.direct[%d].sld_inc' % i, d[0][2][i], ds[0][2])
            E.eq('integer_wavelengths.direct[%d].pen' % i, d[2][i], ds[2])
    return h


def _none_case(other):
    def h(E):
        from periodictable import nsf, formulas
        import periodictable as pt
        c1 = E.real('c1', lo=0, lo_open=True, hi=1000)
        c2 = E.real('c2', lo=0, lo_open=True, hi=1000)
        rho = E.real('rho', lo=0, lo_open=True, hi=25)
        lam = E.real('lam', lo=0.05, hi=50)
        nod = getattr(pt, other)
        f = formulas.formula([(c1, pt.Fe), (c2, nod)])
        r = nsf.neutron_scattering(f, density=rho, wavelength=lam)
        E.fact('none_triple', tuple(r) == (None, None, None), note=repr(r)[:80])
        f2 = formulas.formula([(c2, nod), (c1, pt.Fe)])
        r2 = nsf.neutron_scattering(f2, density=rho, wavelength=lam)
        E.fact('none_triple_reordered', tuple(r2) == (None, None, None), note=repr(r2)[:80])
        E.fact('has_sld_false', not nod.neutron.has_sld())
        # the atom queried directly: every documented entry point reports "no data" as a triple of None
        d1 = nod.neutron.sld(wavelength=lam)
        E.fact('direct_sld_none_triple', isinstance(d1, tuple) and d1 == (None, None, None), note=repr(d1)[:80])
        d2 = nod.neutron.scattering(wavelength=lam)
        E.fact('direct_scattering_none_triple', isinstance(d2, tuple) and d2 == (None, None, None), note=repr(d2)[:80])
        if nod.density is not None:      # (without a density the calculation legitimately asks for one)
            d3 = nsf.neutron_scattering(nod, wavelength=lam)
            E.fact('direct_query_none_triple', tuple(d3) == (None, None, None), note=repr(d3)[:80])
    return h


def _edep_table_reading(el_name, iso):
    """independent reading of the energy table: ascending wavelength nodes and complex values"""
    from periodictable import nsf_tables
    from periodictable.constants import plancks_constant, electron_volt, neutron_mass, atomic_mass_constant
    rows = nsf_tables.ENERGY_DEPENDENT_TABLES[(el_name, iso)]
    ef = (plancks_constant ** 2 * electron_volt / (2 * neutron_mass * atomic_mass_constant)) * 1e23
    pts = []
    for en, re, im, _ in rows:
        pts.append((math.sqrt(ef / (en * 1000.)), complex(re, im)))      # IEEE sqrt, as numpy's
    pts.sort(key=lambda p: p[0])
    return pts


def _chord(E, lam, xa, xb, fa, fb):
    """value on the chord between two table nodes; exact rational arithmetic in symbolic mode"""
    if E.symbolic:
        XA, XB = sym.const(xa), sym.const(xb)
        FA, FB = sym.SymComplex.of(fa), sym.SymComplex.of(fb)
        return FA + (FB - FA) * ((lam - XA) / (XB - XA))
    t = (lam - xa) / (xb - xa)
    return fa + (fb - fa) * t


def _edep_case(el_name, iso, partner='O'):
    def h(E):
        import periodictable as pt
        from periodictable import nsf, formulas
        el = getattr(pt, el_name)
        atom = el if iso is None else el[iso]
        pts = _edep_table_reading(el_name, iso)
        w0, w1 = pts[0][0], pts[-1][0]
        lam = E.real('lam', lo=0.05, hi=50, sample=None)
        try:
            b, sig = atom.neutron.scattering_by_wavelength(lam)
        except sym.HarnessError as e:
            if 'increasing' in str(e):
                E.fact('interp_axis_increasing', False, note=str(e))
                return
            raise
        # oracle: linear interpolation on the wavelength axis, end-clamped
        if lam <= w0:
            want = pts[0][1]
        elif lam >= w1:
            want = pts[-1][1]
        else:
            want = None
            for (xa, fa), (xb, fb) in zip(pts[:-1], pts[1:]):
                if lam >= xa and lam <= xb:
                    if lam == xa:
                        want = fa
                    elif lam == xb:
                        want = fb
                    else:
                        want = _chord(E, lam, xa, xb, fa, fb)
                    break
        E.eq('b_c_interp', b, want)
        E.eq('sigma_s_is_4pi_b2', sig * 100, 4 * cm.PI * cm.cabs2(b))
        # and through the compound calculator with a plain partner atom
        c1 = E.real('c1', lo=0, lo_open=True, hi=1000)
        rho = E.real('rho', lo=0, lo_open=True, hi=25)
        part = getattr(pt, partner)
        f = formulas.formula([(c1, atom), (1, part)])
        res = nsf.neutron_scattering(f, density=rho, wavelength=lam)
        data = {'a': cm.AtomData(atom.mass, want, 4 * cm.PI * cm.cabs2(want) / 100), 'p': cm.atom_data(part)}
        o = cm.neutron_oracle([(c1, 'a'), (1, 'p')], data, rho, lam)
        E.eq('compound.sld_re', res[0][0], o['rho_re'])
        E.eq('compound.sld_im', res[0][1], o['rho_im'])
        E.eq('compound.coh_xs', res[1][0], o['coh'])
        E.eq('compound.abs_xs', res[1][1], o['abs'])
    return h


def _edep_nodes_case(el_name, iso):
    """at every tabulated node the returned b_c is exactly the tabulated value (concrete wavelengths
    offset by a symbolic epsilon constrained to 0 would be trivial; nodes are covered by the
    fork tree of _edep_case: lam == node paths)."""
    return None


def _first_touch_case(case, tier, seed):
    """ground (concrete, fresh interpreters): a neutron result does not depend on it being the first neutron calculation
    of the process, whichever kind of atom or entry point comes first"""
    import periodictable as pt
    from periodictable import nsf
    res = dict(paths=1, claims=0, discharged=0, queries=0, distinct=0, violations=[], inconclusive=[], samples=[], solver_s=0.0, complete=True)
    exprs = ['nsf.neutron_scattering("Cm[248]2O3@5", wavelength=2.0)', 'nsf.neutron_scattering("Ni[58]{2+}O{2-}@6", wavelength=2.0)',
             'nsf.neutron_scattering(pt.Cm[248], wavelength=2.0)', 'pt.H[2].neutron.scattering(wavelength=2.0)', 'pt.Ni[58].neutron.scattering(wavelength=2.0)',
             'nsf.neutron_scattering(pt.Gd[157], wavelength=2.0)', 'nsf.neutron_scattering("Fe{3+}2O{2-}3@5", wavelength=2.0)']
    pre = "import json\nimport periodictable as pt\nfrom periodictable import nsf\ndef flat(r):\n    return [float(x) for x in list(r[0]) + list(r[1]) + [r[2]]]\n"

    def flat(r):
        return [float(x) for x in list(r[0]) + list(r[1]) + [r[2]]]
    want = [flat(eval(e)) for e in exprs]
    for i, e in enumerate(exprs):
        code = pre + "first = flat(%s)\nprint(json.dumps([first, [%s]]))\n" % (e, ', '.join('flat(%s)' % x for x in exprs))
        got = cm.fresh_interpreter(code)
        res['claims'] += 1

        def close(g, w):
            return len(g) == len(w) and all(abs(x - y) <= 1e-12 * max(1.0, abs(y)) for x, y in zip(g, w))
        if isinstance(got, list) and close(got[0], want[i]) and all(close(g, w) for g, w in zip(got[1], want)):
            res['discharged'] += 1
        else:
            res['violations'].append(dict(case=case.name, claim='first_calculation[%s]' % e, values={}, observed=[repr(got)[:300], repr(want[i])[:200]], how='fresh interpreter'))
    res['queries'] = res['distinct'] = res['claims']
    res['samples'] = [dict(first_calculations=exprs)]
    return res


def cases(tier):
    out = []
    combos_quick = [(('X', 'Y'), 'density', 'wavelength'), (('Xi', 'D', 'Y'), 'natural_density', 'wavelength'),
                    (('Xq', 'Y'), 'density', 'energy'), (('Xiq', 'Yi', 'H'), 'natural_density', 'default'),
                    (('X',), 'density', 'wavelength')]
    combos = list(combos_quick)
    if tier == 'thorough':
        combos += [(('X', 'Y', 'Z', 'D'), 'density', 'wavelength'), (('Xi', 'Xq', 'H1'), 'natural_density', 'energy'),
                   (('H', 'D', 'H1', 'Y'), 'natural_density', 'wavelength'), (('Xiq',), 'natural_density', 'energy'),
                   (('Yi', 'Xiq', 'Z'), 'density', 'energy'), (('X', 'Xi', 'Xq', 'Xiq'), 'natural_density', 'wavelength')]
    for keys, dk, wk in combos:
        out.append(Case('compound[%s|%s|%s]' % ('+'.join(keys), dk, wk), _compound_case(keys, dk, wk),
                        max_paths=64 if tier == 'quick' else 512, timeout_ms=30000 if tier == 'quick' else 90000,
                        portfolio=(tier == 'thorough')))
    for kind in (['int_array', 'int_list'] if tier == 'quick' else ['int_array', 'int_list', 'arange', 'tuple']):
        out.append(Case('integer_wavelengths[%s]' % kind, _integer_wavelength_case(kind), max_paths=64, timeout_ms=30000))
    direct = [('Fe', None), ('Ni', 58), ('H', 2)]
    if tier == 'thorough':
        direct += [('H', None), ('H', 1), ('Gd', None), ('Gd', 157), ('Au', None), ('B', 10), ('Li', 6), ('U', 235), ('Sm', 149)]
    for s, iso in direct:
        out.append(Case('direct[%s%s]' % (s, '' if iso is None else '-%d' % iso), _direct_case(s, iso), max_paths=128 if tier == 'quick' else 1024,
                        timeout_ms=30000))
    for other in (['Po', 'Rn'] if tier == 'quick' else ['Po', 'Rn', 'At', 'Bk', 'Og', 'Ra']):
        out.append(Case('no_data[%s]' % other, _none_case(other), max_paths=8))
    ed = [('Dy', 164), ('Yb', 174)] if tier == 'quick' else \
        [('Dy', 164), ('Yb', 174), ('Sm', None), ('Sm', 149), ('Eu', None), ('Eu', 151), ('Gd', None), ('Gd', 155),
         ('Gd', 157), ('Er', None), ('Er', 167), ('Yb', None), ('Yb', 168), ('Lu', 176)]
    for el, iso in ed:
        out.append(Case('energy_dependent[%s%s]' % (el, '' if iso is None else '-%d' % iso), _edep_case(el, iso),
                        max_paths=2048, timeout_ms=30000, nsamples=3))
    out.append(Case('first_calculation_ground', None, custom=_first_touch_case))
    return out
