"""C15 -- decay_time returns the time at which total activity reaches the target."""
from __future__ import annotations

import math

import z3

from ..runner import Case
from .. import sym
from ..sym import SymReal
from . import common as cm

META = dict(
    functions=['periodictable.activation:Sample.decay_time', 'periodictable.activation:find_root'],
    bounds=("1-3 products with symbolic activities at removal and symbolic half-lives, tied to their activities at each rest time "
            "by A_i(T) = A_i(0)*exp(-lambda_i T); rest-time lists of length 1-3 in any order, with and without 0; symbolic target; "
            "find_root replaced by 'returns an arbitrary (t, f(t))' whose contract is discharged on the real find_root with "
            "uninterpreted f, df for 1-3 iterations"),
    outside=("t >= 0 and convergence of the Newton iteration from the heuristic start (needs the actual exponential); "
             "floating-point rounding"),
    stubs=("exp: fresh value per application with sign/monotone/functional axioms plus the product instances "
           "exp(-l*To)*exp(-l*(t-To)) == exp(-l*t) and exp(-l*To)*exp(l*To) == 1 that tie the code's applications to the "
           "true activity; log: unconstrained (only the initial guess uses it); find_root: arbitrary root"),
    assumptions=["floats as exact reals", "activities > 0, half-lives > 0, rest times >= 0, target > 0",
                 "sample.activity holds, per product, its activity at each requested rest time (what calculate_activation stores; C14)"],
)


def _exp(E, x):
    if isinstance(x, SymReal):
        return sym.sym_exp(x)
    return math.exp(x)


def _decay_case(nprod, rest_kind, tiny=False, reuse=False, same_half=False):
    def h(E):
        from periodictable import activation
        LN2 = activation.LN2
        rows, A0, lam = [], [], []
        for i in range(nprod):
            if same_half and i > 0:
                T = rows[0].Thalf_hrs        # two reactions leading to the same product: identical half-lives
            else:
                T = E.real('Thalf%d' % i, lo=0, lo_open=True, hi=1e9, srange=(0.5, 50) if not tiny else (1e4, 1e6))
            rows.append(activation.ActivationResult(Thalf_hrs=T, isotope='X-%d' % i, daughter='Y-%d' % i, reaction='act'))
            A0.append(E.real('A0_%d' % i, lo=0, lo_open=True, hi=1e9,
                             srange=(0.1, 100) if not tiny else ((2e-8, 2e-7) if i < 2 else (3e-11, 9.5e-11))))
            lam.append(LN2 / T)
        if rest_kind == 'zero_only':
            rests = [0]
        elif rest_kind == 'zero_first':
            rests = [0, E.real('R1', lo=0, hi=1e5, srange=(0.5, 30))]
        elif rest_kind == 'zero_last':
            rests = [E.real('R0', lo=0, hi=1e5, srange=(0.5, 30)), 0]
        elif rest_kind == 'one_positive':
            rests = [E.real('R0', lo=0, lo_open=True, hi=1e5, srange=(0.25, 10))]
        elif rest_kind == 'two_positive':
            rests = [E.real('R0', lo=0, lo_open=True, hi=1e5, srange=(0.5, 10)), E.real('R1', lo=0, lo_open=True, hi=1e5, srange=(0.5, 30))]
        else:   # three, any order
            rests = [E.real('R%d' % j, lo=0, hi=1e5, srange=(0.0, 30)) for j in range(3)]
        # activities at each rest time, as calculate_activation stores them
        Eij = [[_exp(E, -(lam[i] * T)) for T in rests] for i in range(nprod)]
        s = activation.Sample('Co', 1.0)
        if reuse:
            # the Sample has been used before, with other products, rest times and target: nothing of that may survive
            prow = activation.ActivationResult(Thalf_hrs=E.real('Thalf_prev', lo=0, lo_open=True, hi=1e9, srange=(0.5, 50)),
                                               isotope='P-0', daughter='Q-0', reaction='act')
            s.rest_times = [0]
            s.activity = {prow: [E.real('A_prev', lo=0, lo_open=True, hi=1e9, srange=(0.1, 100))]}
            keep = activation.find_root
            activation.find_root = lambda x, f, df, max=20, tol=1e-10: (x, 0)     # noqa: A002
            try:
                s.decay_time(E.real('target_prev', lo=0, lo_open=True, hi=1e10, srange=(0.01, 0.05)))
            finally:
                activation.find_root = keep
        s.rest_times = list(rests)
        s.activity = {rows[i]: [A0[i] * Eij[i][j] for j in range(len(rests))] for i in range(nprod)}
        R0 = sum(A0)                                   # total activity at removal from the beam
        target = E.real('target', lo=0, lo_open=True, hi=1e10, srange=(0.05 * 1, 40) if not tiny else (1e-9, 1.5e-8))
        # the harness's own notion of the smallest rest time (forks consistently with the code's min())
        jmin = 0
        for j in range(1, len(rests)):
            if rests[j] < rests[jmin]:
                jmin = j
        To = rests[jmin]
        called = []

        def total_at(t):
            return sum(A0[i] * _exp(E, -(lam[i] * t)) for i in range(nprod))

        def stub(x, f, df, max=20, tol=1e-10):      # noqa: A002
            if E.symbolic:
                t = E.real('t_root', lo=-1e3, hi=1e9)
                ft = f(t)
                zs = []
                ok = True
                for i in range(nprod):
                    z = sym.sym_exp(-(lam[i] * t))
                    X = sym.find_exp((-(lam[i] * (t - To))).t) if not _is_zero(To) else z
                    if X is None:
                        ok = False
                        continue
                    if not _is_zero(To):
                        sym.ctx().add('axioms', Eij[i][jmin].t * X.t == z.t)      # exp(-l To) * exp(-l (t-To)) == exp(-l t)
                    zs.append(z)
                E.fact('f_uses_documented_exponents', ok)
                if ok:
                    E.eq('f_is_total_activity_minus_target', ft, sum(A0[i] * zs[i] for i in range(nprod)) - target)
                    E.eq('df_is_derivative_of_f', df(t), -sum(lam[i] * A0[i] * zs[i] for i in range(nprod)))
                called.append((t, ft))
                return t, ft
            E.eq('f_is_total_activity_minus_target', f(x), total_at(x) - target, scale=target)
            E.eq('df_is_derivative_of_f', df(x), -sum(lam[i] * A0[i] * math.exp(-lam[i] * x) for i in range(nprod)))
            r = real_find_root(x, f, df, max, tol)
            called.append(r)
            return r
        real_find_root = activation.find_root
        activation.find_root = stub
        exc = None
        try:
            try:
                t = s.decay_time(target)
            except RuntimeError as e:
                exc, t = e, None
        finally:
            activation.find_root = real_find_root
        if E.symbolic and not _is_zero(To):
            # tie the code's exp(+l To) (used for the activity at removal) to the stored activities
            for i in range(nprod):
                G = sym.find_exp((lam[i] * To).t)
                if G is not None:
                    sym.ctx().add('axioms', Eij[i][jmin].t * G.t == 1)
        if exc is not None:
            E.fact('runtime_error_only_after_search', bool(called))
            if not E.symbolic:
                _independence(E, activation, rows, A0, target, 'RuntimeError')
            return
        if not called:
            # early exit
            E.fact('early_exit_returns_zero', (not isinstance(t, SymReal)) and t == 0, note=repr(t))
            E.true('zero_only_if_at_or_below_target', R0 <= target if E.symbolic else R0 <= target * (1 + 1e-9))
        else:
            E.true('below_target_returns_zero', R0 >= target if E.symbolic else R0 >= target * (1 - 1e-9))
            tt, ft = called[-1]
            if E.symbolic:
                E.fact('returns_the_root_found', isinstance(t, SymReal) and t.t.eq(tt.t))
                aft = ft if (ft >= 0) else -ft
                E.true('accepted_within_0.1_percent', aft <= 0.001 * (1 + 1e-9) * target)
            else:
                tot = total_at(t)
                E.true('accepted_within_0.1_percent', abs(tot - target) <= 0.001 * target * (1 + 1e-6), note='total %r target %r' % (tot, target))
                E.true('time_nonneg', t >= -1e-9)
        if not E.symbolic:
            _independence(E, activation, rows, A0, target, t)
    return h


def _independence(E, activation, rows, A0, target, got):
    """concrete mode: the same sample with the canonical rest list [0] gives the same answer"""
    s2 = activation.Sample('Co', 1.0)
    s2.rest_times = [0]
    s2.activity = {r: [a] for r, a in zip(rows, A0)}
    try:
        ref = s2.decay_time(target)
    except RuntimeError:
        ref = 'RuntimeError'
    except Exception as e:   # noqa: BLE001
        ref = type(e).__name__
    if isinstance(got, str) or isinstance(ref, str):
        E.fact('independent_of_rest_list', got == ref, note='%r vs %r with rest list [0]' % (got, ref))
    else:
        E.true('independent_of_rest_list', abs(got - ref) <= 1e-3 * max(1.0, abs(ref)), note='%r vs %r with rest list [0]' % (got, ref))


def _through_calculation_case(case, tier, seed):
    """ground (concrete): after a real calculate_activation the answer does not depend on the order or
    choice of the requested rest times, is within 0.1 % of the target and >= 0"""
    import itertools
    from periodictable import activation
    res = dict(paths=1, claims=0, discharged=0, queries=0, distinct=0, violations=[], inconclusive=[], samples=[], solver_s=0.0, complete=True)
    env = activation.ActivationEnvironment(fluence=1e13, Cd_ratio=0., fast_ratio=10.)
    beamline = activation.ActivationEnvironment(fluence=1e5, Cd_ratio=0., fast_ratio=50.)
    reactor = env
    for ftxt, mass in (('Co', 1.0), ('Au', 0.5), ('Co30Fe70', 2.0), ('NaAlSi3O8', 1.0), ('SrTiO3', 1.0), ('Mg', 1.0), ('SnTe', 1.0)):
        # (Mg, Sn, Te at a beam-line fluence: some products come out with an activity of exactly zero)
        env = beamline if ftxt in ('Mg', 'SnTe') else reactor
        ref = None
        for rests in ([0], [0, 1, 24, 360], [24, 0], [360, 24, 1, 0], [1, 0, 24], (0, 5)) + (([24, 48], [1], [48, 2]) if ftxt in ('Co', 'Au') else ()):
            s = activation.Sample(ftxt, mass)
            s.calculate_activation(env, exposure=10, rest_times=rests)
            if 0 in list(rests):
                total0 = sum(v[list(rests).index(0)] for v in s.activity.values())
            for frac in (0.5, 0.01, 1e-4):
                res['claims'] += 1
                target = total0 * frac
                try:
                    t = s.decay_time(target)
                except RuntimeError:
                    t = 'RuntimeError'
                except Exception as e:   # noqa: BLE001
                    t = type(e).__name__
                key = (ftxt, frac)
                if ref is None or key not in ref:
                    ref = ref or {}
                    ref[key] = t
                    ok = not isinstance(t, str) and t >= 0
                    if ok:
                        s2 = activation.Sample(ftxt, mass)
                        s2.calculate_activation(env, exposure=10, rest_times=[t])
                        tot = sum(v[0] for v in s2.activity.values())
                        ok = abs(tot - target) <= 0.001 * target * (1 + 1e-6)
                else:
                    r = ref[key]
                    ok = (t == r) if isinstance(t, str) or isinstance(r, str) else abs(t - r) <= 1e-3 * max(1.0, abs(r))
                if ok:
                    res['discharged'] += 1
                elif len(res['violations']) < 5:
                    res['violations'].append(dict(case=case.name, claim='decay_time_after_calculation', values={'formula': ftxt, 'rest_times': list(rests), 'target_fraction': frac},
                                                  observed=[repr(t), repr(ref.get(key))], how='concrete: real calculate_activation + decay_time'))
        # the same Sample object used again: a new calculation replaces everything the old one left behind
        s = activation.Sample(ftxt, mass)
        s.calculate_activation(activation.ActivationEnvironment(fluence=3e14, Cd_ratio=0., fast_ratio=0.), exposure=2, rest_times=[1, 0])
        try:
            s.decay_time(1e-3)
        except Exception:   # noqa: BLE001
            pass
        s.calculate_activation(env, exposure=10, rest_times=[0, 24])
        total0 = sum(v[0] for v in s.activity.values())
        for frac in (0.5, 0.01, 1e-4):
            res['claims'] += 1
            try:
                t = s.decay_time(total0 * frac)
            except Exception as e:   # noqa: BLE001
                t = type(e).__name__
            r = ref[(ftxt, frac)]
            ok = (t == r) if isinstance(t, str) or isinstance(r, str) else abs(t - r) <= 1e-3 * max(1.0, abs(r))
            if ok:
                res['discharged'] += 1
            elif len(res['violations']) < 5:
                res['violations'].append(dict(case=case.name, claim='decay_time_after_recalculation', values={'formula': ftxt, 'target_fraction': frac},
                                              observed=[repr(t), repr(r)], how='concrete: calculate_activation twice on one Sample, then decay_time'))
    res['queries'] = res['distinct'] = res['claims']
    res['samples'] = [dict(checked=res['claims'])]
    return res


def _is_zero(x):
    return (not isinstance(x, SymReal)) and x == 0


def _degenerate_case(E):
    from periodictable import activation
    s = activation.Sample('Co', 1.0)
    tgt = E.real('target', lo=0, lo_open=True, hi=1e10)
    E.fact('no_activation_returns_zero', s.decay_time(tgt) == 0)


def _find_root_case(maxit):
    """contract of the real find_root for uninterpreted f, df: returns (x, f(x)); each step is x - f(x)/df(x)"""
    def h(E):
        from periodictable import activation
        x0 = E.real('x0', lo=-100, hi=100)
        if E.symbolic:
            F = z3.Function('F', z3.RealSort(), z3.RealSort())
            D = z3.Function('D', z3.RealSort(), z3.RealSort())

            def f(x): return SymReal(F(x.t if isinstance(x, SymReal) else sym.qval(x)))
            def df(x): return SymReal(D(x.t if isinstance(x, SymReal) else sym.qval(x)))
        else:
            def f(x): return x * x * x - 2 * x - 5 + x0 * 0
            def df(x): return 3 * x * x - 2
        x, fx = activation.find_root(x0, f, df, max=maxit, tol=1e-10)
        E.eq('returns_f_of_x', fx, f(x))
        # reconstruct the Newton sequence independently
        xs = [x0]
        for _ in range(maxit):
            cur = xs[-1]
            fc = f(cur)
            if (fc if (fc >= 0) else -fc) < 1e-10:
                break
            xs.append(cur - fc / df(cur))
        E.eq('is_newton_iterate', x, xs[-1])
    return h


def cases(tier):
    th = tier == 'thorough'
    mp = 128 if not th else 1024
    to = 30000 if not th else 120000
    out = []
    combos = [(1, 'zero_only'), (2, 'zero_first'), (1, 'one_positive'), (2, 'two_positive'), (2, 'zero_last')]
    if th:
        combos += [(3, 'zero_first'), (3, 'two_positive'), (1, 'three'), (2, 'three'), (3, 'zero_only')]
    for n, rk in combos:
        out.append(Case('decay_time[products=%d|rests=%s]' % (n, rk), _decay_case(n, rk), max_paths=mp, timeout_ms=to, nsamples=6,
                        portfolio=th, conc_rel=1e-6))
    # concrete regime where the real find_root stops on its absolute tolerance with a poor relative residual
    # (tiny activities, long half-lives): exercises the 0.1 % acceptance test / RuntimeError on real runs
    out.append(Case('decay_time_tiny_activity[products=2|rests=zero_first]', _decay_case(2, 'zero_first', tiny=True), max_paths=mp, timeout_ms=to,
                    nsamples=40 if not th else 200, conc_rel=1e-6))
    out.append(Case('decay_time_tiny_activity[products=3|rests=zero_only]', _decay_case(3, 'zero_only', tiny=True), max_paths=mp, timeout_ms=to,
                    nsamples=40 if not th else 200, conc_rel=1e-6))
    out.append(Case('decay_time_reused_sample[products=2|rests=zero_first]', _decay_case(2, 'zero_first', reuse=True), max_paths=mp, timeout_ms=to,
                    nsamples=4, conc_rel=1e-6))
    out.append(Case('decay_time_same_halflife[products=2|rests=zero_first]', _decay_case(2, 'zero_first', same_half=True), max_paths=mp, timeout_ms=to,
                    nsamples=4, conc_rel=1e-6))
    out.append(Case('decay_time_after_real_calculation', None, custom=_through_calculation_case))
    out.append(Case('no_activation', _degenerate_case, max_paths=4))
    for m in ((1, 2) if not th else (1, 2, 3)):
        out.append(Case('find_root_contract[max=%d]' % m, _find_root_case(m), max_paths=mp, timeout_ms=to, nsamples=1, validate=False))
    return out
