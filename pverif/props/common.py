"""Shared harness helpers: private tables with symbolic per-atom data, formula shapes,
the documented neutron equations as an oracle."""
from __future__ import annotations

import itertools
import math

import numpy as np

from .. import sym
from ..sym import SymReal, SymComplex

_TABLES = {}
_COUNTER = itertools.count()


def private_table(tag, neutron=False):
    """A private table initialised by the real loaders (cached per process and tag)."""
    import os
    from periodictable import core, mass, density, nsf
    key = (tag, neutron)
    if key not in _TABLES:
        name = 'vsym-%s-%d-%d' % (tag, os.getpid(), next(_COUNTER))
        T = core.PeriodicTable(name)
        mass.init(T)
        density.init(T)
        if neutron:
            nsf.init(T)
        _TABLES[key] = T
    return _TABLES[key]


def drop_private_tables():
    from periodictable import core, formulas
    for T in _TABLES.values():
        for k, v in list(core.PRIVATE_TABLES.items()):
            if v is T:
                del core.PRIVATE_TABLES[k]
        formulas._PARSER_CACHE.pop(T, None)
    _TABLES.clear()


def base_of(atom):
    """element or isotope carrying the data of an ion"""
    from periodictable import core
    return atom.element if core.ision(atom) else atom


def sym_mass(E, atom, tag):
    """Give the (base) atom a symbolic/sampled mass."""
    b = base_of(atom)
    m = E.real(tag + '_m', lo=0.5, hi=300, sample=None)
    b._mass = m
    return m


def sym_neutron(E, atom, tag, absorbing=True, number_density=1e22):
    """Attach a fresh Neutron record with symbolic b_c (complex) and total cross-section."""
    from periodictable import nsf
    b = base_of(atom)
    n = nsf.Neutron()
    re = E.real(tag + '_bre', lo=-20, hi=20)
    im = E.real(tag + '_bim', lo=-5, hi=0) if absorbing else 0.0
    tot = E.real(tag + '_tot', lo=0, hi=200)
    n.b_c = re
    if E.symbolic:
        n.b_c_complex = SymComplex(re, im if isinstance(im, SymReal) else sym.const(im))
    else:
        n.b_c_complex = complex(re, im)
    n.total = tot
    n.absorption = -im * 2000 * nsf.ABSORPTION_WAVELENGTH
    n._number_density = number_density
    b.neutron = n
    return n


class AtomData:
    """what the oracle knows about an atom: mass, complex b, sigma_s"""
    def __init__(self, mass, b, sigma_s):
        self.mass, self.b, self.sigma_s = mass, b, sigma_s


def atom_data(atom):
    n = atom.neutron
    return AtomData(atom.mass, n.b_c_complex, n.total)


PI = math.pi
N_A = 6.02214179e23


def cabs2(z):
    if isinstance(z, SymComplex):
        return z.re * z.re + z.im * z.im
    if isinstance(z, SymReal):
        return z * z
    z = complex(z)
    return z.real * z.real + z.imag * z.imag


def cre(z):
    return z.real


def cim(z):
    return z.imag


def neutron_oracle(counts, data, density, wavelength):
    """The equations of the neutron_scattering docstring, typed in once.

    counts: list of (count, key); data: key -> AtomData.  Returns a dict of the documented
    intermediate and final quantities (no square roots: rho_inc is given through its square)."""
    m = sum(c * data[k].mass for c, k in counts)
    n = sum(c for c, k in counts)
    V = m / density / N_A * 1e24
    N = n / V
    b = sum(c * data[k].b for c, k in counts) / n
    sigma_s = sum(c * data[k].sigma_s for c, k in counts) / n
    sigma_c = 4 * PI * cabs2(b) / 100
    sigma_a = -2000 * cim(b) * wavelength        # -1000*4*pi*Im(b)/k, k = 2 pi/lambda
    return dict(m=m, n=n, N=N, b=b, sigma_s=sigma_s, sigma_c=sigma_c, sigma_a=sigma_a,
                rho_re=10 * N * cre(b), rho_im=-10 * N * cim(b),
                coh=N * sigma_c, abs=N * sigma_a, tot=N * sigma_s)


def claim_neutron(E, prefix, result, o, assume_incoh=True):
    """Compare (sld, xs, penetration) with the oracle dict o.  Every claim is an identity
    up to at most one multiplicative constant (see solve.discharge)."""
    (sre, sim, sinc), (coh, ab, inc), pen = result
    E.eq(prefix + 'sld_re', sre, o['rho_re'])
    E.eq(prefix + 'sld_im', sim, o['rho_im'])
    E.eq(prefix + 'coh_xs', coh, o['coh'])
    E.eq(prefix + 'abs_xs', ab, o['abs'])
    # sigma_i = sigma_s - sigma_c (documented for sigma_s >= sigma_c)
    E.eq(prefix + 'inc_plus_coh', inc + coh, o['tot'])
    # rho_inc = 10 N sqrt(100 sigma_i / 4 pi), rho_inc >= 0   <=>   rho_inc^2 * 4pi/100 = 100 N * Sigma_inc
    E.eq(prefix + 'sld_inc_sq', sinc * sinc * (4 * PI / 100), 100 * o['N'] * inc)
    E.true(prefix + 'sld_inc_nonneg', sinc >= 0)
    E.eq(prefix + 'penetration', pen * (o['abs'] + o['tot']), 1)


def flatten_counts(structure, mult=1):
    """(count, atom) list of a nested (count, fragment) structure -- the oracle's own reading."""
    out = []
    for c, frag in structure:
        if isinstance(frag, (list, tuple)):
            out += flatten_counts(frag, mult * c)
        else:
            out.append((mult * c, frag))
    return out


class IdMap:
    """atom -> count keyed by object identity (the oracle must not depend on how atoms compare or hash)"""
    def __init__(self):
        self._k, self._v = [], []

    def _idx(self, a):
        for i, k in enumerate(self._k):
            if k is a:
                return i
        return -1

    def __contains__(self, a): return self._idx(a) >= 0
    def __getitem__(self, a):
        i = self._idx(a)
        if i < 0:
            raise KeyError(a)
        return self._v[i]

    def __setitem__(self, a, v):
        i = self._idx(a)
        if i < 0:
            self._k.append(a)
            self._v.append(v)
        else:
            self._v[i] = v

    def __delitem__(self, a):
        i = self._idx(a)
        del self._k[i], self._v[i]

    def __iter__(self): return iter(list(self._k))
    def __len__(self): return len(self._k)
    def keys(self): return list(self._k)
    def values(self): return list(self._v)
    def items(self): return list(zip(self._k, self._v))
    def get(self, a, default=None): return self[a] if a in self else default


def merge_counts(pairs):
    d = IdMap()
    for c, a in pairs:
        d[a] = d[a] + c if a in d else c
    return d


def same_atom_sets(got, want):
    """got: the library's atoms dict; want: IdMap.  Same atoms, by identity, with nothing merged or extra."""
    gk = list(got.keys())
    return len(gk) == len(want) and all(any(g is w for g in gk) for w in want)


def pool(T):
    """named atoms of a table used by the harness shapes"""
    return dict(X=T.Fe, Xi=T.Fe[56], D=T.D, Xq=T.Fe.ion[2], Xiq=T.Fe[56].ion[3], Y=T.O, Yi=T.O[18],
                Z=T.Si, H=T.H, H1=T.H[1], W=T.Ni, Wi=T.Ni[58], C=T.C, T=T.T, Yq=T.O.ion[-2], Hq=T.H.ion[1],
                Dq=T.D.ion[1], N=T.N, Ca=T.Ca, Xq3=T.Fe.ion[3], Xjq=T.Fe[54].ion[3], Xj=T.Fe[54])


def sym_pool(E, tag, keys, neutron=True, absorbing=True, natural=True, density=False):
    """Private table `tag`; the atoms named by keys get symbolic mass (and neutron data).
    Returns (T, atoms, data) with data[key] = AtomData for the oracle."""
    T = private_table(tag, neutron=neutron)
    P = pool(T)
    atoms = [P[k] for k in keys]
    seen = {}
    for k, a in zip(keys, atoms):
        b = base_of(a)
        if b not in seen:
            sym_mass(E, b, k)
            if neutron:
                sym_neutron(E, b, k, absorbing=absorbing)
            seen[b] = k
    if natural:
        for k, a in zip(keys, atoms):
            b = base_of(a)
            el = getattr(b, 'element', None)
            if el is not None and el not in seen:
                sym_mass(E, el, k + 'nat')
                seen[el] = k + 'nat'
    if density:
        for k, a in zip(keys, atoms):
            b = base_of(a)
            el = getattr(b, 'element', b)
            if not getattr(el, '_vsym_rho', None) == id(E):
                el._density = E.real(k + '_rho', lo=0.01, hi=25)
                el._vsym_rho = id(E)
    data = {}
    if neutron:
        for k, a in zip(keys, atoms):
            data[k] = atom_data(a)
    return T, atoms, data


class Snapshot:
    """what the caller handed in, to be compared after the call: the library may read its arguments, not change them"""
    def __init__(self, **objs):
        self.items = []
        for name, o in objs.items():
            if isinstance(o, np.ndarray):
                self.items.append((name, o, ('array', o.copy())))
            elif isinstance(o, (list, tuple)) and all(hasattr(x, 'structure') for x in o):
                for i, x in enumerate(o):
                    self.items.append(('%s[%d]' % (name, i), x, ('formula', (x.structure, x.density, x.name))))
            elif hasattr(o, 'structure'):
                self.items.append((name, o, ('formula', (o.structure, o.density, o.name))))
            elif isinstance(o, list):
                self.items.append((name, o, ('list', list(o))))

    def check(self, E, prefix):
        for name, o, (kind, was) in self.items:
            if kind == 'array':
                same = o.shape == was.shape and all(a is b or (not isinstance(a, SymReal) and not isinstance(b, SymReal) and a == b)
                                                    for a, b in zip(o.flat, was.flat))
                E.fact('%s.argument_unchanged[%s]' % (prefix, name), same, note='%r -> %r' % (was.tolist()[:4], o.tolist()[:4]))
            elif kind == 'list':
                E.fact('%s.argument_unchanged[%s]' % (prefix, name), len(o) == len(was) and all(a is b for a, b in zip(o, was)))
            else:
                st, de, na = was
                same = o.structure is st and o.name is na and (o.density is de or (de is not None and o.density is not None and not isinstance(de, SymReal) and o.density == de))
                E.fact('%s.argument_unchanged[%s]' % (prefix, name), same, note='%r %r' % (o.structure is st, o.density))


def fresh_interpreter(code, timeout=180):
    """Run a snippet in a new Python process that sees the same periodictable (same interpreter, same PYTHONPATH):
    returns the object it printed as JSON on its last line.  Used for the few claims that depend on what is touched
    FIRST in a process (lazily loaded property groups)."""
    import json, subprocess, sys
    r = subprocess.run([sys.executable, '-c', code], capture_output=True, text=True, timeout=timeout)
    lines = [l for l in r.stdout.strip().split('\n') if l.strip()]
    if r.returncode != 0 or not lines:
        return dict(error=(r.stderr or r.stdout)[-400:])
    try:
        return json.loads(lines[-1])
    except ValueError:
        return dict(error='unreadable output: %r' % lines[-1][:200])
