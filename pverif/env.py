"""Harness environments.

A harness is a function ``h(E)`` written once and executed in two modes:

* ``SymEnv``  -- inputs are SymReal, claims become solver obligations;
* ``ConcEnv`` -- inputs are Python floats (a seeded sample, or a solver model
  being replayed), the real unpatched code runs on them and claims are compared
  numerically.  This is the replay and the encoding-validation vehicle.
"""
from __future__ import annotations

import math
from fractions import Fraction

import numpy as np
import z3

from . import sym
from .sym import SymReal, SymComplex, SymBool, HarnessError


class AssumptionFailed(Exception):
    pass


class Claim:
    __slots__ = ('name', 'kind', 'a', 'b', 't', 'note', 'hyps')

    def __init__(self, name, kind, a=None, b=None, t=None, note=None):
        self.name, self.kind, self.a, self.b, self.t, self.note = name, kind, a, b, t, note
        self.hyps = None      # optional: the only hypotheses this claim may use (domain obligations)


def _terms(x):
    """(re, im) z3 terms of a numeric value (im None for reals)."""
    if isinstance(x, SymReal):
        return x.t, None
    if isinstance(x, SymComplex):
        return x.re.t, x.im.t
    if isinstance(x, (complex, np.complexfloating)):
        x = complex(x)
        return sym.qval(x.real), sym.qval(x.imag)
    q = sym.qval(x)
    if q is None:
        raise HarnessError("cannot compare value %r" % (x,))
    return q, None


class SymEnv:
    symbolic = True

    def __init__(self):
        self.inputs = {}     # name -> (z3 var, lo, hi)
        self.claims = []
        self.notes = []

    # ---- inputs
    def real(self, name, lo=None, hi=None, lo_open=False, hi_open=False, sample=None, ne=None, srange=None):
        v = z3.Real(name)
        self.inputs[name] = v
        c = sym.ctx()
        if lo is not None:
            c.add('assumptions', v > sym.qval(lo) if lo_open else v >= sym.qval(lo))
        if hi is not None:
            c.add('assumptions', v < sym.qval(hi) if hi_open else v <= sym.qval(hi))
        if ne is not None:
            c.add('assumptions', v != sym.qval(ne))
        if sample is None:
            # printing shadow only ("%g" of a count inside an error message / str()): any value in range
            l = 0.5 if lo is None else float(lo)
            hgh = l + 3.0 if hi is None else float(hi)
            sample = l + (hgh - l) * (0.25 + 0.5 * ((sum(map(ord, name)) * 37) % 101) / 101.0)
        return SymReal(v, float(sample))

    def pos(self, name, sample=None):
        return self.real(name, lo=0, lo_open=True, sample=sample)

    def nonneg(self, name, sample=None):
        return self.real(name, lo=0, sample=sample)

    def assume(self, cond):
        if isinstance(cond, SymBool):
            sym.ctx().add('assumptions', cond.t)
        elif not cond:
            raise sym.Infeasible()

    # ---- claims
    def eq(self, name, a, b, note=None, scale=None):
        """a == b (exactly, or up to one constant factor within 1e-9: see solve.py).
        `scale` only matters in concrete mode (natural magnitude of the operands when a, b cancel)."""
        if a is None or b is None:
            self.fact(name, a is None and b is None, note=note or '%r vs %r' % (a, b))
            return
        a, b = (sym.SymNaN if isinstance(x, (float, complex, np.floating, np.complexfloating)) and x != x else x for x in (a, b))
        if a is sym.SymNaN or b is sym.SymNaN:
            self.fact(name, a is b, note=note)
            return
        ar, ai = _terms(a)
        br, bi = _terms(b)
        if ai is None and bi is None:
            self.claims.append(Claim(name, 'eq', ar, br, note=note))
        else:
            zero = z3.RealVal(0)
            self.claims.append(Claim(name + '.re', 'eq', ar, br, note=note))
            self.claims.append(Claim(name + '.im', 'eq', zero if ai is None else ai,
                                     zero if bi is None else bi, note=note))

    close = eq

    def true(self, name, cond, note=None):
        if isinstance(cond, SymBool):
            self.claims.append(Claim(name, 'bool', t=cond.t, note=note))
        else:
            self.fact(name, bool(cond), note=note)

    def near(self, name, a, b, tol, note=None):
        """|a - b| <= tol with a concrete absolute tolerance (used where the operands cancel)"""
        a, b = (x if isinstance(x, SymReal) else sym.const(x) for x in (a, b))
        t = sym.qval(tol)
        self.claims.append(Claim(name, 'bool', t=z3.And(a.t - b.t <= t, b.t - a.t <= t), note=note))

    def fact(self, name, ok, note=None):
        """A concrete fact observed on this path (types, None-ness, exceptions, identity)."""
        self.claims.append(Claim(name, 'bool', t=z3.BoolVal(bool(ok)), note=note))

    def note(self, s):
        self.notes.append(s)


class ConcEnv:
    symbolic = False

    def __init__(self, values=None, rng=None, rel=1e-6, abs_tol=0.0):
        self.values = dict(values or {})
        self.rng = rng
        self.used = {}
        self.rel = rel
        self.abs_tol = abs_tol
        self.results = []    # (name, ok, a, b)
        self.notes = []

    def real(self, name, lo=None, hi=None, lo_open=False, hi_open=False, sample=None, ne=None, srange=None):
        if name in self.values:
            v = float(self.values[name])
        elif sample is not None:
            v = float(sample)
        else:
            l = 0.5 if lo is None else float(lo)
            h = l + 3.0 if hi is None else float(hi)
            if lo is None and hi is not None:
                l = h - 3.0
            if srange is not None:      # range used for concrete validation samples only
                l, h = float(srange[0]), float(srange[1])
            r = self.rng.random() if self.rng is not None else 0.37
            v = l + (h - l) * (0.1 + 0.8 * r)
        ok = True
        if lo is not None:
            ok &= v > lo if lo_open else v >= lo
        if hi is not None:
            ok &= v < hi if hi_open else v <= hi
        if ne is not None:
            ok &= v != ne
        if not ok:
            raise AssumptionFailed("%s=%r outside its declared range" % (name, v))
        self.used[name] = v
        return v

    def pos(self, name, sample=None):
        return self.real(name, lo=0, lo_open=True, sample=sample)

    def nonneg(self, name, sample=None):
        return self.real(name, lo=0, sample=sample)

    def assume(self, cond):
        if not cond:
            raise AssumptionFailed("assumption false on concrete values")

    def _num_ok(self, a, b, scale=None):
        if a is None or b is None:
            return a is None and b is None
        try:
            a = complex(a)
            b = complex(b)
        except (TypeError, ValueError):
            return bool(np.all(a == b))
        if np.isnan(a) or np.isnan(b):
            return bool(np.isnan(a) and np.isnan(b))
        if np.isinf(a.real) or np.isinf(b.real):
            return a == b
        return abs(a - b) <= self.rel * max(abs(a), abs(b), abs(scale) if scale is not None else 0.0) + self.abs_tol

    def eq(self, name, a, b, note=None, scale=None):
        if a is sym.SymNaN:
            a = float('nan')
        if b is sym.SymNaN:
            b = float('nan')
        self.results.append((name, self._num_ok(a, b, scale), _show(a), _show(b)))

    close = eq

    def true(self, name, cond, note=None):
        self.results.append((name, bool(cond), note, None))

    def near(self, name, a, b, tol, note=None):
        self.results.append((name, abs(float(a) - float(b)) <= tol * (1 + 1e-6), _show(a), _show(b)))

    def fact(self, name, ok, note=None):
        self.results.append((name, bool(ok), note, None))

    def note(self, s):
        self.notes.append(s)

    @property
    def failures(self):
        return [r for r in self.results if not r[1]]


def _show(x):
    try:
        if isinstance(x, (complex, np.complexfloating)):
            return repr(complex(x))
        return float(x)
    except Exception:
        return repr(x)
