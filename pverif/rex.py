"""Engine B: Python regular expressions -> z3 regular-expression terms; live-grammar walk; doc BNF reader."""
from __future__ import annotations

import re
import re._parser as sre_parse
import re._constants as sre_c

import z3

from .sym import HarnessError


def _cat(parts):
    parts = [p for p in parts if p is not None]
    if not parts:
        return z3.Re(z3.StringVal(''))
    if len(parts) == 1:
        return parts[0]
    return z3.Concat(*parts)


def _union(parts):
    if len(parts) == 1:
        return parts[0]
    return z3.Union(*parts)


def _chr(c):
    return z3.Re(z3.StringVal(chr(c)))


def _in(items):
    alts = []
    negate = False
    for op, av in items:
        if op == sre_c.NEGATE:
            negate = True
        elif op == sre_c.LITERAL:
            alts.append(_chr(av))
        elif op == sre_c.RANGE:
            alts.append(z3.Range(chr(av[0]), chr(av[1])))
        elif op == sre_c.CATEGORY:
            if av == sre_c.CATEGORY_DIGIT:
                alts.append(z3.Range('0', '9'))
            elif av == sre_c.CATEGORY_SPACE:
                alts.append(_union([_chr(ord(c)) for c in ' \t\n\r\f\v']))
            else:
                raise HarnessError('regex category %s not modelled' % av)
        else:
            raise HarnessError('regex class item %s not modelled' % op)
    r = _union(alts)
    if negate:
        r = z3.Intersect(z3.AllChar(z3.ReSort(z3.StringSort())), z3.Complement(r))
    return r


def _conv(seq):
    parts = []
    for op, av in seq:
        if op == sre_c.LITERAL:
            parts.append(_chr(av))
        elif op == sre_c.IN:
            parts.append(_in(av))
        elif op == sre_c.BRANCH:
            parts.append(_union([_conv(b) for b in av[1]]))
        elif op == sre_c.SUBPATTERN:
            parts.append(_conv(av[3]))
        elif op in (sre_c.MAX_REPEAT, sre_c.MIN_REPEAT):
            lo, hi, sub = av
            r = _conv(sub)
            if hi == sre_c.MAXREPEAT:
                if lo == 0:
                    parts.append(z3.Star(r))
                elif lo == 1:
                    parts.append(z3.Plus(r))
                else:
                    parts.append(z3.Concat(z3.Loop(r, lo, lo), z3.Star(r)))
            elif lo == 0 and hi == 1:
                parts.append(z3.Option(r))
            else:
                parts.append(z3.Loop(r, lo, hi))
        elif op == sre_c.ANY:
            parts.append(z3.AllChar(z3.ReSort(z3.StringSort())))
        elif op == sre_c.AT:
            continue
        else:
            raise HarnessError('regex construct %s not modelled' % op)
    return _cat(parts)


def to_z3(pattern):
    return _conv(sre_parse.parse(pattern))


def compare(A, B, restrict=None, timeout_ms=20000):
    """languages equal (inside `restrict` if given)?  returns ('unsat'|'sat'|'unknown', witness, seconds)"""
    import time
    s = z3.Solver()
    s.set('timeout', timeout_ms)
    x = z3.String('w')
    if restrict is not None:
        s.add(z3.InRe(x, restrict))
    s.add(z3.InRe(x, A) != z3.InRe(x, B))
    t0 = time.time()
    r = s.check()
    w = None
    if r == z3.sat:
        w = s.model()[x].as_string()
    return str(r), w, time.time() - t0


def included(A, B, timeout_ms=20000):
    """L(A) subset of L(B)?  ('unsat' = yes)"""
    import time
    s = z3.Solver()
    s.set('timeout', timeout_ms)
    x = z3.String('w')
    s.add(z3.InRe(x, A), z3.Not(z3.InRe(x, B)))
    t0 = time.time()
    r = s.check()
    w = s.model()[x].as_string() if r == z3.sat else None
    return str(r), w, time.time() - t0


# ---------------------------------------------------------------- live grammar walk
def walk_grammar(grammar):
    """all pyparsing elements reachable from the grammar: list of (element, parent chain)"""
    seen = {}
    order = []

    def rec(e, parents):
        if id(e) in seen:
            return
        seen[id(e)] = e
        order.append((e, parents))
        kids = []
        if hasattr(e, 'exprs'):
            kids = list(e.exprs)
        elif hasattr(e, 'expr') and e.expr is not None:
            kids = [e.expr]
        for k in kids:
            rec(k, parents + [e])
    rec(grammar, [])
    return order


def _literals_under(e, depth=3):
    out = set()
    tn = type(e).__name__
    if tn == 'Literal' or tn.startswith('_SingleCharLiteral') or tn == '_SingleCharLiteral':
        out.add(e.match)
    elif hasattr(e, 'match') and isinstance(getattr(e, 'match'), str) and 'Literal' in tn:
        out.add(e.match)
    if depth > 0:
        if hasattr(e, 'exprs'):
            for k in e.exprs:
                out |= _literals_under(k, depth - 1)
        elif getattr(e, 'expr', None) is not None:
            out |= _literals_under(e.expr, depth - 1)
    return out


def grammar_regexes(grammar):
    """[(pattern, sibling literal set, parent type names)] for every Regex of the live grammar"""
    out = []
    for e, parents in walk_grammar(grammar):
        if type(e).__name__ != 'Regex':
            continue
        sib = set()
        # nearest And ancestor
        for p in reversed(parents):
            if type(p).__name__ == 'And':
                for k in p.exprs:
                    if k is not e:
                        sib |= _literals_under(k, 3)
                break
        out.append((e.pattern, sib, [type(p).__name__ for p in parents], e))
    return out


def original_action(fn, depth=0):
    """the parse action defined in formulas.py underneath pyparsing's arity wrapper"""
    import types
    if isinstance(fn, types.FunctionType) and fn.__code__.co_filename.endswith('formulas.py'):
        return fn
    if depth > 6:
        return None
    for cell in (getattr(fn, '__closure__', None) or ()):
        try:
            v = cell.cell_contents
        except ValueError:
            continue
        if callable(v):
            r = original_action(v, depth + 1)
            if r is not None:
                return r
    return None


# ---------------------------------------------------------------- documented BNF
def read_doc_bnf(path):
    """rules of the '::' grammar block of formula_grammar.rst: name -> rhs text"""
    rules = {}
    txt = open(path).read()
    m = re.search(r'The grammar used for parsing formula strings is the following:\s*\n\s*::\s*\n(.*?)\n\S', txt, re.S)
    if not m:
        raise HarnessError('documented grammar block not found')
    for line in m.group(1).split('\n'):
        mm = re.match(r'\s+(\w+)\s+::\s+(.*\S)\s*$', line)
        if mm:
            rules[mm.group(1)] = mm.group(2)
    return rules


def bnf_token_regex(rules, name, strip_quotes=()):
    """Python regex for a token rule of the doc BNF (quoted literals escaped, rule names expanded);
    quoted literals listed in strip_quotes (the bracket characters) are dropped."""
    rhs = rules[name]
    out = ''
    pos = 0
    tok = re.compile(r"\s+|'([^']*)'|([A-Za-z_]+)|(\[[^\]]*\])|(.)")
    for m in tok.finditer(rhs):
        if m.group(0).isspace():
            continue
        if m.group(1) is not None:
            lit = m.group(1)
            if lit in strip_quotes:
                continue
            if '|' in lit and len(lit) > 1:       # 'wt%|vol%' style
                out += '(' + '|'.join(re.escape(p) for p in lit.split('|')) + ')'
            else:
                out += re.escape(lit)
        elif m.group(2) is not None:
            nm = m.group(2)
            if nm not in rules:
                raise HarnessError('doc BNF: unknown rule %s' % nm)
            out += '(' + bnf_token_regex(rules, nm) + ')'
        elif m.group(3) is not None:
            out += m.group(3)
        else:
            out += m.group(4)
    return out
