"""Runtime monkeypatches (never edits /repo): sym-aware math/numpy aliases in periodictable modules."""
from __future__ import annotations

import builtins
import contextlib
import math
import sys

import numpy as np

from . import sym
from .sym import SymReal, SymComplex, is_sym

_ORIG = {
    'math.exp': math.exp, 'math.expm1': math.expm1, 'math.log': math.log, 'math.sqrt': math.sqrt,
    'math.cos': math.cos, 'math.radians': math.radians,
    'np.sqrt': np.sqrt, 'np.exp': np.exp, 'np.maximum': np.maximum, 'np.interp': np.interp,
    'np.expm1': np.expm1, 'np.log': np.log, 'np.cos': np.cos, 'np.radians': np.radians, 'np.sin': np.sin,
}


def _arr(f_sym, f_orig):
    def g(x, *a, **kw):
        if isinstance(x, (SymReal, SymComplex)):
            return f_sym(x)
        if isinstance(x, np.ndarray) and x.dtype == object:
            return np.frompyfunc(lambda v: f_sym(v) if isinstance(v, (SymReal, SymComplex)) else f_orig(v), 1, 1)(x)
        return f_orig(x, *a, **kw)
    g.__name__ = getattr(f_orig, '__name__', 'stub')
    return g


def _radians(x):
    if isinstance(x, SymReal):
        return sym._Radians(x)
    return _ORIG['math.radians'](x)


def _cos(x):
    if isinstance(x, sym._Radians):
        return sym.sym_cos_deg(x.deg)
    if isinstance(x, SymReal):
        raise sym.HarnessError("cos of a symbolic radian value is not modelled")
    return _ORIG['math.cos'](x)


def _np_radians(x, *a, **kw):
    if isinstance(x, SymReal):
        return x * (math.pi / 180.0)
    if isinstance(x, np.ndarray) and x.dtype == object:
        return np.frompyfunc(lambda v: v * (math.pi / 180.0), 1, 1)(x)
    return _ORIG['np.radians'](x, *a, **kw)


def _np_sin(x, *a, **kw):
    if isinstance(x, SymReal):
        return sym.sym_sincos(x)[0]
    if isinstance(x, np.ndarray) and x.dtype == object:
        return np.frompyfunc(lambda v: sym.sym_sincos(v)[0] if isinstance(v, SymReal) else math.sin(v), 1, 1)(x)
    return _ORIG['np.sin'](x, *a, **kw)


def _np_cos(x, *a, **kw):
    if isinstance(x, SymReal):
        return sym.sym_sincos(x)[1]
    if isinstance(x, np.ndarray) and x.dtype == object:
        return np.frompyfunc(lambda v: sym.sym_sincos(v)[1] if isinstance(v, SymReal) else math.cos(v), 1, 1)(x)
    return _ORIG['np.cos'](x, *a, **kw)


def _maximum(a, b, *args, **kw):
    if is_sym(a) or is_sym(b):
        return sym.sym_maximum(a, b)
    return _ORIG['np.maximum'](a, b, *args, **kw)


def _interp(x, xp, fp, left=None, right=None, period=None):
    if is_sym(x) or is_sym(fp):
        return sym.sym_interp(x, xp, fp, left, right)
    return _ORIG['np.interp'](x, xp, fp, left, right, period)


def replacements():
    return {
        id(math.exp): _arr(sym.sym_exp, math.exp),
        id(math.expm1): _arr(sym.sym_expm1, math.expm1),
        id(math.log): _arr(sym.sym_log, math.log),
        id(math.sqrt): _arr(sym.sym_sqrt, math.sqrt),
        id(math.cos): _cos,
        id(math.radians): _radians,
        id(np.sqrt): _arr(sym.sym_sqrt, np.sqrt),
        id(np.exp): _arr(sym.sym_exp, np.exp),
        id(np.expm1): _arr(sym.sym_expm1, np.expm1),
        id(np.log): _arr(sym.sym_log, np.log),
        id(np.maximum): _maximum,
        id(np.radians): _np_radians,
        id(np.sin): _np_sin,
        id(np.cos): _np_cos,
        id(np.interp): _interp,
    }


def sym_float(x=0.0):
    if isinstance(x, SymReal):
        return x
    return builtins.float(x)


@contextlib.contextmanager
def patched(extra=None, float_modules=()):
    """Patch every alias of the modelled math/numpy functions in periodictable.* module
    globals and on the math / numpy modules themselves; restore on exit."""
    rep = replacements()
    saved = []
    mods = [m for n, m in list(sys.modules.items())
            if m is not None and (n == 'periodictable' or n.startswith('periodictable.'))]
    for m in mods + [math, np]:
        d = vars(m)
        for k, v in list(d.items()):
            try:
                r = rep.get(id(v))
            except Exception:
                r = None
            if r is not None and callable(v):
                saved.append((m, k, v))
                setattr(m, k, r)
    for mname in float_modules:
        m = sys.modules[mname]
        had = 'float' in vars(m)
        saved.append((m, 'float', vars(m).get('float', _MISSING)))
        setattr(m, 'float', sym_float)
    for (m, k, v) in (extra or []):
        saved.append((m, k, vars(m).get(k, _MISSING)))
        setattr(m, k, v)
    try:
        yield
    finally:
        for m, k, v in reversed(saved):
            if v is _MISSING:
                try:
                    delattr(m, k)
                except AttributeError:
                    pass
            else:
                setattr(m, k, v)


_MISSING = object()
