"""Engine A core: z3-backed numeric proxies and the re-execution path explorer.

The repository's own function objects are executed; numbers flowing through
them are SymReal / SymComplex wrapping z3 Real terms.  ``SymBool.__bool__`` is
the fork point: the explorer re-runs the harness once per path and asks z3
which sides of an undetermined branch are feasible.
"""
from __future__ import annotations

import math
import numbers
from fractions import Fraction

import numpy as np
import z3


import threading


def zcheck(solver, timeout_ms, *assumptions):
    """solver.check with a hard wall-clock cap (z3's own timeout is not always honoured in
    nonlinear tactics): a watchdog thread interrupts the context; the answer is then `unknown`."""
    solver.set('timeout', int(timeout_ms))
    timer = threading.Timer(timeout_ms / 1000.0 + 1.0, z3.main_ctx().interrupt)
    timer.daemon = True
    timer.start()
    try:
        try:
            return solver.check(*assumptions)
        except z3.Z3Exception:
            return z3.unknown
    finally:
        timer.cancel()


class HarnessError(Exception):
    """The machinery (proxy, stub, recogniser) cannot carry this run."""


class Infeasible(BaseException):
    """Forced branch side is infeasible (BaseException: passes 'except Exception')."""


class PathAbort(BaseException):
    """Path abandoned (budget, unsupported value)."""


# --------------------------------------------------------------------------
# context
# --------------------------------------------------------------------------
class Ctx:
    def __init__(self, forced=(), branch_timeout_ms=4000):
        self.decisions = list(forced)
        self.nforced = len(forced)
        self.pos = 0
        self.pc = []          # branch conditions taken (z3 Bool)
        self.assumptions = [] # input assumptions + implicit (den != 0, sqrt arg >= 0)
        self.axioms = []      # stub axioms
        self.divs = []        # denominators seen
        self.domain = []      # (kind, term) domain obligations (sqrt arg >= 0 ...)
        self.exps = []        # (arg term, value var)
        self.coss = []
        self.nfresh = 0
        self.cons = []        # (constraint, frozenset of variable names)
        self.branch_timeout_ms = branch_timeout_ms
        self.unknown_branches = 0
        self.quick_decided = 0
        self.stub_calls = {}
        self.trace = []       # branch descriptions

    def add(self, kind, t):
        getattr(self, kind).append(t)
        self.cons.append((t, term_vars(t)))

    def fresh(self, prefix):
        self.nfresh += 1
        return z3.Real('%s!%d' % (prefix, self.nfresh))

    def feasible(self, t):
        """Is `constraints so far & t` satisfiable?  Only the cone of influence of t is sent to
        the solver (exact, because the dropped, variable-disjoint part is satisfiable)."""
        rel = cone(self.cons, t)
        s = z3.Solver()
        s.add(*rel)
        s.add(t)
        r = zcheck(s, self.branch_timeout_ms)
        if r == z3.unknown:
            self.unknown_branches += 1
            return True
        return r == z3.sat


_VARS_CACHE = {}


def term_vars(t):
    """frozenset of the names of the uninterpreted constants of a z3 term"""
    key = t.get_id()
    r = _VARS_CACHE.get(key)
    if r is not None and r[0].eq(t):
        return r[1]
    out = set()
    seen = set()
    stack = [t]
    while stack:
        u = stack.pop()
        i = u.get_id()
        if i in seen:
            continue
        seen.add(i)
        if z3.is_const(u):
            if u.decl().kind() == z3.Z3_OP_UNINTERPRETED:
                out.add(u.decl().name())
        else:
            stack.extend(u.children())
    fs = frozenset(out)
    if len(_VARS_CACHE) > 200000:
        _VARS_CACHE.clear()
    _VARS_CACHE[key] = (t, fs)
    return fs


def cone(cons, t):
    """constraints (from a list of (term, varset)) in the cone of influence of term t"""
    vs = set(term_vars(t))
    rel = []
    rest = list(cons)
    changed = True
    while changed and rest:
        changed = False
        keep = []
        for c, cv in rest:
            if cv & vs:
                rel.append(c)
                if not cv <= vs:
                    vs |= cv
                    changed = True
            elif not cv:
                rel.append(c)      # ground constraint (e.g. False): keep
            else:
                keep.append((c, cv))
        rest = keep
    return rel


CTX: Ctx | None = None
MODE = {}              # harness options: {'abs': 'ite'|'fork', 'max': 'ite'|'fork'} (default fork)
EXP_SECANT = False     # harness option: add the secant (concavity) axiom between exp applications
FLOAT_HOOK = None      # called with the SymReal whenever float() is taken (concolic printing)


def ctx() -> Ctx:
    if CTX is None:
        raise HarnessError("symbolic value used outside an exploration context")
    return CTX


# --------------------------------------------------------------------------
# lifting
# --------------------------------------------------------------------------
def qval(x):
    """Exact z3 rational for a Python/numpy number."""
    if isinstance(x, (bool, np.bool_)):
        return z3.RealVal(int(x))
    if isinstance(x, (int, np.integer)):
        return z3.RealVal(int(x))
    if isinstance(x, Fraction):
        return z3.RatVal(x.numerator, x.denominator)
    if isinstance(x, (float, np.floating)):
        x = float(x)
        if math.isnan(x) or math.isinf(x):
            raise PathAbort("non-finite concrete float %r meets a symbol" % x)
        f = Fraction(x)
        return z3.RatVal(f.numerator, f.denominator)
    return None


def lift(x):
    if isinstance(x, SymReal):
        return x.t
    return qval(x)


def _shadow(x):
    if isinstance(x, SymReal):
        return x.shadow
    if isinstance(x, (int, float, Fraction, np.integer, np.floating)):
        return float(x)
    return None


def is_sym(x):
    if isinstance(x, (SymReal, SymComplex, SymBool)):
        return True
    if isinstance(x, np.ndarray) and x.dtype == object:
        return any(isinstance(v, (SymReal, SymComplex)) for v in x.flat)
    if isinstance(x, (list, tuple)):
        return any(is_sym(v) for v in x)
    return False


def _elementwise(f, arr):
    out = np.frompyfunc(f, 1, 1)(arr.astype(object))
    return out


def _light(t):
    """cheap local simplification: x+0, x*1, x*0, numeral folding"""
    if t.num_args() != 2:
        return t
    k = t.decl().kind()
    a, b = t.arg(0), t.arg(1)
    va, vb = _num_value(a), _num_value(b)
    if va is not None and vb is not None:
        return z3.simplify(t)
    if k == z3.Z3_OP_ADD:
        if va == 0: return b
        if vb == 0: return a
    elif k == z3.Z3_OP_SUB:
        if vb == 0: return a
    elif k == z3.Z3_OP_MUL:
        if va == 0 or vb == 0: return z3.RealVal(0)
        if va == 1: return b
        if vb == 1: return a
    elif k == z3.Z3_OP_DIV:
        if va == 0: return z3.RealVal(0)
        if vb == 1: return a
    return t


def _num_value(t):
    """Fraction value of a z3 numeral term or None."""
    if z3.is_rational_value(t):
        return Fraction(t.numerator_as_long(), t.denominator_as_long())
    if z3.is_int_value(t):
        return Fraction(t.as_long())
    return None


# --------------------------------------------------------------------------
# SymBool
# --------------------------------------------------------------------------
class SymBool:
    __slots__ = ('t', 'shadow')

    def __init__(self, t, shadow=None):
        self.t = t
        self.shadow = shadow

    def __bool__(self):
        c = ctx()
        t = z3.simplify(self.t)
        if z3.is_true(t):
            return True
        if z3.is_false(t):
            return False
        if c.pos < len(c.decisions):
            # replaying a prefix: every symbolic branch consumes one entry
            d, _forked = c.decisions[c.pos]
        else:
            bnds = _bounds_of(c.cons)
            q = quick_decide(self.t, bnds)
            if q is None:
                q = quick_decide(t, bnds)
            if q is not None:
                c.quick_decided += 1
                ft, ff = q, (not q)
            else:
                ft = c.feasible(t)
                ff = c.feasible(z3.Not(t))
            if ft and ff:
                d, forked = True, True
            elif ft:
                d, forked = True, False
            elif ff:
                d, forked = False, False
            else:
                raise Infeasible()
            c.decisions.append((d, forked))
        c.pos += 1
        c.add('pc', t if d else z3.Not(t))
        c.trace.append((t, d))
        return d

    def __and__(self, o):
        if isinstance(o, SymBool):
            return SymBool(z3.And(self.t, o.t))
        return self if o else False

    __rand__ = __and__

    def __or__(self, o):
        if isinstance(o, SymBool):
            return SymBool(z3.Or(self.t, o.t))
        return True if o else self

    __ror__ = __or__

    def __invert__(self):
        return SymBool(z3.Not(self.t))

    def __repr__(self):
        return 'SymBool(%s)' % self.t


def zbool(x):
    """z3 Bool of a SymBool / bool."""
    if isinstance(x, SymBool):
        return x.t
    if isinstance(x, (bool, np.bool_)):
        return z3.BoolVal(bool(x))
    raise HarnessError("not a boolean: %r" % (x,))


# --------------------------------------------------------------------------
# SymReal
# --------------------------------------------------------------------------
class SymReal:
    __slots__ = ('t', 'shadow', '_sq')
    __array_priority__ = 1000.0

    def __init__(self, t, shadow=None, sq=None):
        self.t = t
        self.shadow = shadow
        self._sq = sq      # known exact square (sqrt stub results)

    # -- helpers
    @staticmethod
    def _mk(t, shadow=None):
        return SymReal(t, shadow)

    def _coerce(self, other):
        if isinstance(other, SymReal):
            return other.t, other.shadow
        q = qval(other)
        if q is None:
            return None, None
        return q, float(other)

    def _bin(self, other, zop, pyop, reflected=False):
        if isinstance(other, np.ndarray):
            if reflected:
                return _elementwise(lambda o: pyop(o, self), other)
            return _elementwise(lambda o: pyop(self, o), other)
        if isinstance(other, SymComplex):
            return NotImplemented
        if other is SymNaN:
            return SymNaN
        if isinstance(other, (float, np.floating)) and other != other:
            return SymNaN           # NaN is absorbing
        if isinstance(other, (complex, np.complexfloating)) and (other.real != other.real or other.imag != other.imag):
            return SymNaN
        if isinstance(other, (complex, np.complexfloating)):
            a = SymComplex(self, SymReal(z3.RealVal(0), 0.0))
            b = SymComplex.of(other)
            return pyop(b, a) if reflected else pyop(a, b)
        o, osh = self._coerce(other)
        if o is None:
            return NotImplemented
        sh = None
        if self.shadow is not None and osh is not None:
            try:
                sh = pyop(osh, self.shadow) if reflected else pyop(self.shadow, osh)
            except (ZeroDivisionError, OverflowError):
                sh = None
        t = zop(o, self.t) if reflected else zop(self.t, o)
        return SymReal(_light(t), sh)

    def __add__(self, o): return self._bin(o, lambda a, b: a + b, lambda a, b: a + b)
    def __radd__(self, o): return self._bin(o, lambda a, b: a + b, lambda a, b: a + b, True)
    def __sub__(self, o): return self._bin(o, lambda a, b: a - b, lambda a, b: a - b)
    def __rsub__(self, o): return self._bin(o, lambda a, b: a - b, lambda a, b: a - b, True)
    def __mul__(self, o): return self._bin(o, lambda a, b: a * b, lambda a, b: a * b)
    def __rmul__(self, o): return self._bin(o, lambda a, b: a * b, lambda a, b: a * b, True)

    @staticmethod
    def _zdiv(a, b):
        nb = _num_value(z3.simplify(b))
        if nb is not None:
            if nb == 0:
                raise ZeroDivisionError("float division by zero")
            return a * z3.RatVal(nb.denominator, nb.numerator) if nb > 0 else \
                a * z3.RatVal(-nb.denominator, -nb.numerator)
        c = ctx()
        c.divs.append(b)
        c.add('assumptions', b != 0)
        return a / b

    def __truediv__(self, o): return self._bin(o, SymReal._zdiv, lambda a, b: a / b)
    def __rtruediv__(self, o): return self._bin(o, SymReal._zdiv, lambda a, b: a / b, True)

    def __neg__(self):
        return SymReal(-self.t, None if self.shadow is None else -self.shadow)

    def __pos__(self):
        return self

    def __abs__(self):
        sg = sign3(z3.simplify(self.t), _bounds_of(ctx().cons))
        if not sg[0]:
            return self            # never negative
        if not sg[2]:
            return -self           # never positive
        if MODE.get('abs') == 'ite':
            return SymReal(z3.If(self.t >= 0, self.t, -self.t), None if self.shadow is None else abs(self.shadow))
        # fork on the sign: keeps terms ite-free
        if self >= 0:
            return self
        return -self

    def __pow__(self, n):
        if isinstance(n, SymReal):
            v = _num_value(z3.simplify(n.t))
            if v is None:
                raise HarnessError("symbolic exponent")
            n = v
        if isinstance(n, (float, np.floating)) and float(n) == int(n):
            n = int(n)
        if isinstance(n, Fraction) and n.denominator == 1:
            n = int(n)
        if isinstance(n, (int, np.integer)):
            n = int(n)
            if n == 0:
                return SymReal(z3.RealVal(1), 1.0)
            if n < 0:
                return 1 / (self ** (-n))
            if n == 2 and self._sq is not None:
                return self._sq
            r = self
            for _ in range(n - 1):
                r = r * self
            return r
        if n == 0.5:
            return sym_sqrt(self)
        if isinstance(n, (float, np.floating)) and abs(float(n) - 1.0 / 3.0) < 1e-15:
            return sym_cbrt(self)
        raise HarnessError("unsupported power %r" % (n,))

    def __rpow__(self, base):
        raise HarnessError("concrete ** symbolic is not modelled")

    # -- comparisons
    def _cmp(self, other, zop, pyop):
        if isinstance(other, np.ndarray):
            return _elementwise(lambda o: self._cmp(o, zop, pyop), other)
        o, osh = self._coerce(other)
        if o is None:
            return NotImplemented
        sh = None
        if self.shadow is not None and osh is not None:
            sh = pyop(self.shadow, osh)
        return SymBool(zop(self.t, o), sh)

    def __lt__(self, o): return self._cmp(o, lambda a, b: a < b, lambda a, b: a < b)
    def __le__(self, o): return self._cmp(o, lambda a, b: a <= b, lambda a, b: a <= b)
    def __gt__(self, o): return self._cmp(o, lambda a, b: a > b, lambda a, b: a > b)
    def __ge__(self, o): return self._cmp(o, lambda a, b: a >= b, lambda a, b: a >= b)

    def __eq__(self, o):
        r = self._cmp(o, lambda a, b: a == b, lambda a, b: a == b)
        return False if r is NotImplemented else r

    def __ne__(self, o):
        r = self._cmp(o, lambda a, b: a != b, lambda a, b: a != b)
        return True if r is NotImplemented else r

    __hash__ = object.__hash__

    def __bool__(self):
        return bool(self != 0)

    def __float__(self):
        if FLOAT_HOOK is not None and self.shadow is not None:
            FLOAT_HOOK(self)
        if self.shadow is None:
            v = _num_value(z3.simplify(self.t))
            if v is not None:
                return float(v)
            raise HarnessError("float() of a symbol without shadow value: %s" % self.t)
        return float(self.shadow)

    def __int__(self):
        raise HarnessError("int() of a symbolic real")

    def __index__(self):
        raise HarnessError("symbolic real used as an index")

    def __round__(self, n=None):
        raise HarnessError("round() of a symbolic real")

    # complex-number protocol
    @property
    def real(self): return self
    @property
    def imag(self): return SymReal(z3.RealVal(0), 0.0)
    def conjugate(self): return self

    # numpy's object loops call these
    def sqrt(self): return sym_sqrt(self)
    def exp(self): return sym_exp(self)

    def __repr__(self):
        return 'SymReal(%s)' % (self.t,)


numbers.Real.register(SymReal)


def const(x, shadow=None):
    return SymReal(qval(x), float(x) if shadow is None else shadow)


# --------------------------------------------------------------------------
# SymComplex
# --------------------------------------------------------------------------
class SymComplex:
    __slots__ = ('re', 'im')
    __array_priority__ = 1001.0

    def __init__(self, re, im):
        self.re = re if isinstance(re, SymReal) else const(re)
        self.im = im if isinstance(im, SymReal) else const(im)

    @staticmethod
    def of(x):
        if isinstance(x, SymComplex):
            return x
        if isinstance(x, SymReal):
            return SymComplex(x, const(0))
        if isinstance(x, (complex, np.complexfloating)):
            x = complex(x)
            return SymComplex(const(x.real), const(x.imag))
        if qval(x) is not None:
            return SymComplex(const(x), const(0))
        return None

    def _b(self, o, f, reflected=False):
        if isinstance(o, np.ndarray):
            return _elementwise(lambda v: self._b(v, f, reflected), o)
        if o is SymNaN:
            return SymNaN
        if isinstance(o, (float, np.floating)) and o != o:
            return SymNaN
        if isinstance(o, (complex, np.complexfloating)) and (o.real != o.real or o.imag != o.imag):
            return SymNaN
        oc = SymComplex.of(o)
        if oc is None:
            return NotImplemented
        return f(oc, self) if reflected else f(self, oc)

    @staticmethod
    def _add(a, b): return SymComplex(a.re + b.re, a.im + b.im)
    @staticmethod
    def _sub(a, b): return SymComplex(a.re - b.re, a.im - b.im)
    @staticmethod
    def _mul(a, b):
        return SymComplex(a.re * b.re - a.im * b.im, a.re * b.im + a.im * b.re)
    @staticmethod
    def _div(a, b):
        bim = z3.simplify(b.im.t)
        if _num_value(bim) == 0:
            return SymComplex(a.re / b.re, a.im / b.re)
        d = b.re * b.re + b.im * b.im
        return SymComplex((a.re * b.re + a.im * b.im) / d, (a.im * b.re - a.re * b.im) / d)

    def __add__(self, o): return self._b(o, SymComplex._add)
    def __radd__(self, o): return self._b(o, SymComplex._add, True)
    def __sub__(self, o): return self._b(o, SymComplex._sub)
    def __rsub__(self, o): return self._b(o, SymComplex._sub, True)
    def __mul__(self, o): return self._b(o, SymComplex._mul)
    def __rmul__(self, o): return self._b(o, SymComplex._mul, True)
    def __truediv__(self, o): return self._b(o, SymComplex._div)
    def __rtruediv__(self, o): return self._b(o, SymComplex._div, True)
    def __neg__(self): return SymComplex(-self.re, -self.im)
    def __pos__(self): return self

    def __abs__(self):
        sq = self.re * self.re + self.im * self.im
        return sym_sqrt(sq)

    def __pow__(self, n):
        if n == 2:
            return self * self
        if n == 1:
            return self
        raise HarnessError("unsupported complex power %r" % (n,))

    @property
    def real(self): return self.re
    @property
    def imag(self): return self.im
    def conjugate(self): return SymComplex(self.re, -self.im)

    def __eq__(self, o):
        oc = SymComplex.of(o)
        if oc is None:
            return False
        return SymBool(z3.And(self.re.t == oc.re.t, self.im.t == oc.im.t))

    def __ne__(self, o):
        r = self.__eq__(o)
        return True if r is False else ~r

    __hash__ = object.__hash__

    def __bool__(self):
        return bool(self != 0)

    def __complex__(self):
        return complex(float(self.re), float(self.im))

    def __repr__(self):
        return 'SymComplex(%s, %s)' % (self.re.t, self.im.t)


numbers.Complex.register(SymComplex)


# --------------------------------------------------------------------------
# stubs for transcendental functions
# --------------------------------------------------------------------------
def _count(name):
    c = ctx()
    c.stub_calls[name] = c.stub_calls.get(name, 0) + 1


def sym_sqrt(x):
    """sqrt contract: fresh r with r >= 0 and r*r == x; x >= 0 is a domain assumption."""
    if isinstance(x, SymComplex):
        return sym_csqrt(x)
    if not isinstance(x, SymReal):
        return math.sqrt(x)
    v = _num_value(z3.simplify(x.t))
    if v is not None and v >= 0:
        rt = Fraction(math.isqrt(v.numerator), math.isqrt(v.denominator))
        if rt * rt == v:
            return const(rt)
    c = ctx()
    _count('sqrt')
    r = c.fresh('sqrt')
    c.domain.append(('sqrt_arg_nonneg', x.t, len(c.cons)))     # obligation: holds given what is known so far
    c.add('assumptions', x.t >= 0)
    c.add('axioms', r >= 0)
    c.add('axioms', r * r == x.t)
    sh = None
    if x.shadow is not None and x.shadow >= 0:
        sh = math.sqrt(x.shadow)
    return SymReal(r, sh, sq=x)


def sym_csqrt(z):
    """principal complex sqrt: w*w == z, Re w >= 0."""
    c = ctx()
    _count('csqrt')
    a, b = c.fresh('csqrt_re'), c.fresh('csqrt_im')
    c.add('axioms', a >= 0)
    c.add('axioms', a * a - b * b == z.re.t)
    c.add('axioms', 2 * a * b == z.im.t)
    return SymComplex(SymReal(a), SymReal(b))


def sym_cbrt(x):
    c = ctx()
    _count('cbrt')
    r = c.fresh('cbrt')
    c.add('axioms', r * r * r == x.t)
    c.add('axioms', z3.Implies(x.t > 0, r > 0))
    c.add('axioms', z3.Implies(x.t == 0, r == 0))
    return SymReal(r, None if x.shadow is None else math.copysign(abs(x.shadow) ** (1 / 3), x.shadow))


def find_exp(arg_t):
    """Code-side exp application whose argument is provably equal to arg_t."""
    c = ctx()
    arg_t = z3.simplify(arg_t)
    for a, v in c.exps:
        if a.eq(arg_t):
            return SymReal(v)
    for a, v in c.exps:
        s = z3.Solver()
        for grp in (c.assumptions, c.pc, c.axioms):
            s.add(*grp)
        s.add(a != arg_t)
        if zcheck(s, 5000) == z3.unsat:
            return SymReal(v)
    return None


def sym_exp(x, reuse=True):
    """exp contract: fresh e per application, with sign/monotone/functional axioms."""
    if isinstance(x, SymComplex):
        return sym_cexp(x)
    if not isinstance(x, SymReal):
        return math.exp(x)
    c = ctx()
    a = z3.simplify(x.t)
    v = _num_value(a)
    if v is not None and v == 0:
        return const(1)
    if reuse:
        for b, w in c.exps:
            if b.eq(a):
                return SymReal(w, None if x.shadow is None else math.exp(x.shadow))
    _count('exp')
    e = c.fresh('exp')
    ax = [e > 0, z3.Implies(a < 0, e < 1), z3.Implies(a > 0, e > 1), z3.Implies(a == 0, e == 1),
          e >= 1 + a]   # tangent at 0 (convexity)
    for b, w in c.exps:
        ax += [z3.Implies(a < b, e < w), z3.Implies(a > b, e > w), z3.Implies(a == b, e == w)]
        if EXP_SECANT:
            # (1 - exp(-x))/x is strictly decreasing for x > 0  (concavity of 1 - exp(-x))
            ax += [z3.Implies(z3.And(a < 0, b < 0, a < b), (1 - e) * (-b) < (1 - w) * (-a)),
                   z3.Implies(z3.And(a < 0, b < 0, b < a), (1 - w) * (-a) < (1 - e) * (-b))]
    for t in ax:
        c.add('axioms', t)
    c.exps.append((a, e))
    sh = None
    if x.shadow is not None:
        try:
            sh = math.exp(x.shadow)
        except OverflowError:
            sh = None
    return SymReal(e, sh)


def sym_expm1(x):
    if not isinstance(x, SymReal):
        return math.expm1(x)
    return sym_exp(x) - 1


def sym_cexp(z):
    c = ctx()
    m = sym_exp(z.re)
    if _num_value(z3.simplify(z.im.t)) == 0:
        return SymComplex(m if isinstance(m, SymReal) else const(m), const(0))
    _count('cis')
    co, si = c.fresh('cos'), c.fresh('sin')
    c.add('axioms', co * co + si * si == 1)
    return SymComplex(m * SymReal(co), m * SymReal(si))


def sym_log(x):
    if not isinstance(x, SymReal):
        return math.log(x)
    c = ctx()
    _count('log')
    l = c.fresh('log')
    c.add('assumptions', x.t > 0)
    return SymReal(l, None if x.shadow is None or x.shadow <= 0 else math.log(x.shadow))


def sym_cos_deg(a):
    """cos(radians(a)) for a symbolic angle in degrees: fresh c in [-1, 1], functional."""
    c = ctx()
    at = z3.simplify(a.t)
    for b, w in c.coss:
        if b.eq(at):
            return SymReal(w)
    _count('cosdeg')
    v = c.fresh('cosd')
    c.add('axioms', v >= -1)
    c.add('axioms', v <= 1)
    for b, w in c.coss:
        c.add('axioms', z3.Implies(at == b, v == w))
    c.coss.append((at, v))
    return SymReal(v, None if a.shadow is None else math.cos(math.radians(a.shadow)))


def sym_sincos(x):
    """(sin x, cos x) for a symbolic angle in radians: fresh pair with s*s + c*c == 1, functional in x,
    sin >= 0 on [0, 3.14]"""
    c = ctx()
    xt = z3.simplify(x.t)
    for b, (sv, cv) in getattr(c, 'sincos', []):
        if b.eq(xt):
            return SymReal(sv), SymReal(cv)
    if not hasattr(c, 'sincos'):
        c.sincos = []
    _count('sincos')
    sv, cv = c.fresh('sin'), c.fresh('cos')
    c.add('axioms', sv * sv + cv * cv == 1)
    c.add('axioms', z3.Implies(z3.And(xt >= 0, xt <= z3.RatVal(314, 100)), sv >= 0))
    c.add('axioms', z3.Implies(xt == 0, z3.And(sv == 0, cv == 1)))
    for b, (s2, c2) in c.sincos:
        c.add('axioms', z3.Implies(xt == b, z3.And(sv == s2, cv == c2)))
    c.sincos.append((xt, (sv, cv)))
    sh = x.shadow
    return (SymReal(sv, None if sh is None else math.sin(sh)), SymReal(cv, None if sh is None else math.cos(sh)))


class _Radians:
    """marker returned by patched math.radians for a symbolic degree value."""
    def __init__(self, deg):
        self.deg = deg


def sym_maximum(a, b):
    """np.maximum replacement: forks (keeps terms ite-free); arrays element-wise."""
    if isinstance(a, np.ndarray) or isinstance(b, np.ndarray):
        return np.frompyfunc(sym_maximum, 2, 1)(np.asarray(a, dtype=object), np.asarray(b, dtype=object))
    if isinstance(a, (SymReal,)) or isinstance(b, SymReal):
        sg = sign3(z3.simplify(lift(a) - lift(b)), _bounds_of(ctx().cons))
        if not sg[0]:
            return a if isinstance(a, SymReal) else const(a)
        if not sg[2]:
            return b if isinstance(b, SymReal) else const(b)
        if MODE.get('max') == 'ite':
            ta, tb = lift(a), lift(b)
            sa, sb = _shadow(a), _shadow(b)
            return SymReal(z3.If(ta >= tb, ta, tb), None if sa is None or sb is None else max(sa, sb))
        return a if a >= b else b
    return max(a, b)


def sym_interp(x, xp, fp, left=None, right=None):
    """Exact model of numpy.interp over concrete node arrays, as a fork tree on x."""
    xp = np.asarray(xp)
    fp = np.asarray(fp)
    if isinstance(x, np.ndarray):
        out = np.empty(x.shape, dtype=object)
        for i, v in np.ndenumerate(x):
            out[i] = sym_interp(v, xp, fp, left, right)
        return out
    if not isinstance(x, SymReal):
        return np.interp(x, xp, fp, left, right)
    if is_sym(xp):
        raise HarnessError("interp with symbolic nodes")
    if len(xp) == 0 or np.any(np.diff(xp.astype(float)) < 0):
        raise HarnessError("interp model requires increasing xp")
    _count('interp')
    n = len(xp)
    lo_v = fp[0] if left is None else left
    hi_v = fp[-1] if right is None else right
    if x < float(xp[0]):
        return _lift_value(lo_v)
    if x > float(xp[-1]):
        return _lift_value(hi_v)
    if n == 1:
        return _lift_value(fp[0])
    # numpy: j = last index with xp[j] <= x (binary search), value fp[j] if x == xp[j] or j is the last node,
    # else slope*(x - xp[j]) + fp[j]
    lo, hi = 0, n - 1
    if x >= float(xp[hi]):
        return _lift_value(fp[hi])
    while hi - lo > 1:
        mid = (lo + hi) // 2
        if x >= float(xp[mid]):
            lo = mid
        else:
            hi = mid
    if x == float(xp[lo]):
        return _lift_value(fp[lo])
    x0, x1 = float(xp[lo]), float(xp[hi])
    f0, f1 = fp[lo], fp[hi]
    if _isnan(f0) or _isnan(f1):
        return SymNaN
    # linear interpolation in exact arithmetic (numpy evaluates slope*(x - x0) + f0 in floats; rounding is outside)
    F0, F1 = _lift_value(f0), _lift_value(f1)
    return F0 + (F1 - F0) * ((x - const(x0)) / (const(x1) - const(x0)))


def _isnan(v):
    try:
        return bool(np.isnan(v))
    except TypeError:
        return False


def _lift_value(v):
    if isinstance(v, (SymReal, SymComplex)):
        return v
    if isinstance(v, (complex, np.complexfloating)):
        return SymComplex.of(v)
    if _isnan(v):
        return SymNaN
    return const(v)


class _SymNaN:
    """absorbing NaN marker"""
    def _s(self, *a): return self
    __add__ = __radd__ = __sub__ = __rsub__ = __mul__ = __rmul__ = _s
    __truediv__ = __rtruediv__ = __neg__ = __pow__ = __abs__ = _s
    real = property(lambda self: self)
    imag = property(lambda self: self)
    def __repr__(self): return 'SymNaN'


SymNaN = _SymNaN()


# --------------------------------------------------------------------------
# explorer
# --------------------------------------------------------------------------
# --------------------------------------------------------------------------
# sign analysis: a sound, cheap pre-filter for branch feasibility
# --------------------------------------------------------------------------
ALL3 = (True, True, True)      # (can be negative, can be zero, can be positive)


def _bounds_of(cons):
    """variable name -> [lo, lo_strict, hi, hi_strict] from constraints of the shape  v op numeral"""
    b = {}
    for c, _ in cons:
        if not z3.is_app(c) or c.num_args() != 2:
            continue
        k = c.decl().kind()
        if k not in (z3.Z3_OP_LE, z3.Z3_OP_LT, z3.Z3_OP_GE, z3.Z3_OP_GT):
            continue
        l, r = c.arg(0), c.arg(1)
        vl, vr = _num_value(l), _num_value(r)
        if vr is not None and z3.is_const(l) and l.decl().kind() == z3.Z3_OP_UNINTERPRETED:
            name, val = l.decl().name(), vr
        elif vl is not None and z3.is_const(r) and r.decl().kind() == z3.Z3_OP_UNINTERPRETED:
            name, val = r.decl().name(), vl
            k = {z3.Z3_OP_LE: z3.Z3_OP_GE, z3.Z3_OP_LT: z3.Z3_OP_GT, z3.Z3_OP_GE: z3.Z3_OP_LE, z3.Z3_OP_GT: z3.Z3_OP_LT}[k]
        else:
            continue
        e = b.setdefault(name, [None, False, None, False])
        if k in (z3.Z3_OP_GE, z3.Z3_OP_GT):
            strict = k == z3.Z3_OP_GT
            if e[0] is None or val > e[0] or (val == e[0] and strict):
                e[0], e[1] = val, strict
        else:
            strict = k == z3.Z3_OP_LT
            if e[2] is None or val < e[2] or (val == e[2] and strict):
                e[2], e[3] = val, strict
    return b


def _sgn_add(a, b):
    neg = a[0] or b[0]
    pos = a[2] or b[2]
    zero = (a[1] and b[1]) or (a[0] and b[2]) or (a[2] and b[0])
    return (neg, zero, pos)


def _sgn_mul(a, b):
    neg = (a[0] and b[2]) or (a[2] and b[0])
    pos = (a[0] and b[0]) or (a[2] and b[2])
    zero = a[1] or b[1]
    return (neg, zero, pos)


def sign3(t, bounds, depth=0, memo=None):
    """over-approximation of the possible signs of real term t"""
    if memo is None:
        memo = {}
    key = t.get_id()
    if key in memo:
        return memo[key]
    r = _sign3(t, bounds, depth, memo)
    if r == ALL3 and z3.is_app(t) and t.decl().kind() in (z3.Z3_OP_ADD, z3.Z3_OP_SUB) and depth < 50:
        # retry on the expanded sum of monomials (cancels  m*c - c*m  and the like)
        try:
            e = z3.simplify(t, som=True)
            if not e.eq(t):
                r2 = _sign3(e, bounds, depth + 1, memo)
                r = (r[0] and r2[0], r[1] and r2[1], r[2] and r2[2])
        except z3.Z3Exception:
            pass
    memo[key] = r
    return r


def _sign3(t, bounds, depth, memo):
    v = _num_value(t)
    if v is not None:
        return (v < 0, v == 0, v > 0)
    if depth > 200 or not z3.is_app(t):
        return ALL3
    k = t.decl().kind()
    if z3.is_const(t) and k == z3.Z3_OP_UNINTERPRETED:
        e = bounds.get(t.decl().name())
        if e is None:
            return ALL3
        lo, ls, hi, hs = e
        neg = not (lo is not None and lo >= 0)
        pos = not (hi is not None and hi <= 0)
        zero = not ((lo is not None and (lo > 0 or (lo == 0 and ls))) or (hi is not None and (hi < 0 or (hi == 0 and hs))))
        return (neg, zero, pos)
    ch = t.children()
    if k == z3.Z3_OP_ADD:
        r = sign3(ch[0], bounds, depth + 1, memo)
        for c in ch[1:]:
            r = _sgn_add(r, sign3(c, bounds, depth + 1, memo))
        return r
    if k == z3.Z3_OP_SUB:
        r = sign3(ch[0], bounds, depth + 1, memo)
        for c in ch[1:]:
            x = sign3(c, bounds, depth + 1, memo)
            r = _sgn_add(r, (x[2], x[1], x[0]))
        return r
    if k == z3.Z3_OP_UMINUS:
        x = sign3(ch[0], bounds, depth + 1, memo)
        return (x[2], x[1], x[0])
    if k == z3.Z3_OP_MUL:
        r = sign3(ch[0], bounds, depth + 1, memo)
        for c in ch[1:]:
            r = _sgn_mul(r, sign3(c, bounds, depth + 1, memo))
        return r
    if k == z3.Z3_OP_DIV:
        a = sign3(ch[0], bounds, depth + 1, memo)
        b = sign3(ch[1], bounds, depth + 1, memo)
        b = (b[0], False, b[2])        # a recorded division: denominator != 0 is a path assumption
        if not (b[0] or b[2]):
            return ALL3
        return _sgn_mul(a, b)
    if k == z3.Z3_OP_ITE:
        a = sign3(ch[1], bounds, depth + 1, memo)
        b = sign3(ch[2], bounds, depth + 1, memo)
        return (a[0] or b[0], a[1] or b[1], a[2] or b[2])
    return ALL3


def quick_decide(t, bounds):
    """True / False if the comparison t is decided by sign analysis, else None"""
    if not z3.is_app(t):
        return None
    k = t.decl().kind()
    if k == z3.Z3_OP_NOT:
        r = quick_decide(t.arg(0), bounds)
        return None if r is None else (not r)
    if k in (z3.Z3_OP_EQ, z3.Z3_OP_DISTINCT, z3.Z3_OP_LE, z3.Z3_OP_LT, z3.Z3_OP_GE, z3.Z3_OP_GT) and t.num_args() == 2 \
            and z3.is_arith(t.arg(0)):
        memo = {}
        a = sign3(z3.simplify(t.arg(0)), bounds, 0, memo)
        b = sign3(z3.simplify(t.arg(1)), bounds, 0, memo)
        d = _sgn_add(a, (b[2], b[1], b[0]))      # sign of lhs - rhs
        neg, zero, pos = d
        if k == z3.Z3_OP_EQ:
            return False if not zero else (True if not (neg or pos) else None)
        if k == z3.Z3_OP_DISTINCT:
            return True if not zero else (False if not (neg or pos) else None)
        if k == z3.Z3_OP_GE:
            return True if not neg else (False if not (zero or pos) else None)
        if k == z3.Z3_OP_GT:
            return True if not (neg or zero) else (False if not pos else None)
        if k == z3.Z3_OP_LE:
            return True if not pos else (False if not (zero or neg) else None)
        if k == z3.Z3_OP_LT:
            return True if not (pos or zero) else (False if not neg else None)
    return None


class Path:
    def __init__(self, c, result, exc):
        self.pc = list(c.pc)
        self.assumptions = list(c.assumptions)
        self.axioms = list(c.axioms)
        self.decisions = list(c.decisions)
        self.divs = list(c.divs)
        self.domain = list(c.domain)
        self.cons_order = [t for t, _ in c.cons]
        self.result = result
        self.exc = exc
        self.stub_calls = dict(c.stub_calls)
        self.unknown_branches = c.unknown_branches
        self.trace = list(c.trace)


def explore(harness, max_paths=64, branch_timeout_ms=4000):
    """Run ``harness()`` once per feasible path.  Returns (paths, complete)."""
    global CTX
    stack = [[]]
    out = []
    aborted = 0
    while stack and len(out) < max_paths:
        pre = stack.pop()
        c = CTX = Ctx(forced=pre, branch_timeout_ms=branch_timeout_ms)
        try:
            dead = False
            try:
                res, exc = harness(), None
            except Infeasible:
                dead = True       # assumptions made after a fork killed this path; siblings still explored
            except PathAbort as e:
                aborted += 1
                res, exc = None, e
            if not dead:
                out.append(Path(c, res, exc))
            for i in range(len(pre), len(c.decisions)):
                d, forked = c.decisions[i]
                if forked:
                    stack.append(c.decisions[:i] + [(not d, True)])
        finally:
            CTX = None
    return out, (not stack), aborted


def selftest_interp(seed=0, trials=60):
    """validate the fork-tree model of numpy.interp against numpy itself on seeded concrete inputs
    (increasing and doubled nodes, NaN / clamped ends); returns the number of comparisons, raises on mismatch"""
    import random
    rng = random.Random(seed)
    n_cmp = 0
    for _ in range(trials):
        n = rng.randint(1, 7)
        xp = sorted(rng.choice([0., 1., 2., 2., 3.5, 4., 4., 5., 7.]) for _ in range(n))
        fp = [rng.uniform(-5, 5) for _ in range(n)]
        for x in (rng.choice(xp), rng.uniform(-1, 8), xp[0], xp[-1]):
            left = rng.choice([None, float('nan')])
            right = rng.choice([None, 7.0])
            want = float(np.interp(x, xp, fp, left=left, right=right))

            def h():
                X = SymReal(z3.Real('x_selftest'))
                ctx().add('assumptions', X.t == qval(x))
                return sym_interp(X, np.array(xp), np.array(fp), left, right)
            paths, _, _ = explore(h)
            r = paths[0].result
            if r is SymNaN:
                got = float('nan')
            else:
                s_ = z3.Solver()
                s_.add(z3.Real('x_selftest') == qval(x))
                s_.check()
                v = s_.model().eval(r.t, model_completion=True)
                got = float(Fraction(v.numerator_as_long(), v.denominator_as_long()))
            n_cmp += 1
            if not ((math.isnan(want) and math.isnan(got)) or abs(want - got) <= 1e-9 * max(1.0, abs(want))):
                raise HarnessError('interp model disagrees with numpy.interp: xp=%r fp=%r x=%r left=%r right=%r: numpy %r model %r'
                                   % (xp, fp, x, left, right, want, got))
    return n_cmp
