"""Discharging obligations with the solver (z3 5.x in-process; optional external portfolio)."""
from __future__ import annotations

import os
import subprocess
import tempfile
import time
from fractions import Fraction

import z3

REL_TOL = Fraction(1, 10**9)


class Verdict:
    def __init__(self, status, how='', model=None, seconds=0.0, kappa=None, queries=1):
        self.status = status      # 'unsat' | 'sat' | 'unknown'
        self.how = how
        self.model = model
        self.seconds = seconds
        self.kappa = kappa
        self.queries = queries


def _solver(base, timeout_ms):
    s = z3.Solver()
    s.set('timeout', timeout_ms)
    for g in base:
        s.add(*g)
    return s


def _check(base, neg, timeout_ms):
    from .sym import zcheck
    s = _solver(base, timeout_ms)
    s.add(neg)
    t0 = time.time()
    r = zcheck(s, timeout_ms)
    dt = time.time() - t0
    m = s.model() if r == z3.sat else None
    return str(r), m, dt, s


# ---- fraction-free normalisation ------------------------------------------------
class Unsupported(Exception):
    pass


ONE = z3.RealVal(1)


def num_den(t, depth=0):
    """t == n/d with n, d division-free (t must be ite-free real arithmetic)."""
    if z3.is_rational_value(t) or z3.is_int_value(t) or (z3.is_const(t) and t.decl().kind() == z3.Z3_OP_UNINTERPRETED):
        return t, ONE
    if z3.is_algebraic_value(t):
        return t, ONE
    k, ch = t.decl().kind(), t.children()
    if k == z3.Z3_OP_ADD or k == z3.Z3_OP_SUB:
        n, d = num_den(ch[0])
        for c in ch[1:]:
            n2, d2 = num_den(c)
            if d2.eq(d):
                n = n + n2 if k == z3.Z3_OP_ADD else n - n2
            else:
                n = n * d2 + n2 * d if k == z3.Z3_OP_ADD else n * d2 - n2 * d
                d = d * d2
        return n, d
    if k == z3.Z3_OP_MUL:
        n, d = num_den(ch[0])
        for c in ch[1:]:
            n2, d2 = num_den(c)
            n, d = n * n2, (d if d2.eq(ONE) else (d2 if d.eq(ONE) else d * d2))
        return n, d
    if k == z3.Z3_OP_DIV:
        n1, d1 = num_den(ch[0])
        n2, d2 = num_den(ch[1])
        return n1 * d2, d1 * n2
    if k == z3.Z3_OP_UMINUS:
        n, d = num_den(ch[0])
        return -n, d
    if k == z3.Z3_OP_TO_REAL:
        return t, ONE
    if k == z3.Z3_OP_POWER:
        e = ch[1]
        if z3.is_rational_value(e) and e.denominator_as_long() == 1 and e.numerator_as_long() >= 0:
            n, d = num_den(ch[0])
            p = e.numerator_as_long()
            nn, dd = ONE, ONE
            for _ in range(p):
                nn, dd = nn * n, dd * d
            return nn, dd
    raise Unsupported(str(t.decl()))


def cross_multiplied(a, b, kappa=None):
    na, da = num_den(z3.simplify(a))
    nb, db = num_den(z3.simplify(b))
    lhs = na * db
    rhs = nb * da
    if kappa is not None:
        rhs = rhs * z3.RatVal(kappa.numerator, kappa.denominator)
    return z3.simplify(lhs - rhs, som=True) == 0


def model_value(m, t):
    """Fraction (or float for algebraic numbers) value of term t in model m."""
    v = m.eval(t, model_completion=True)
    if z3.is_rational_value(v):
        return Fraction(v.numerator_as_long(), v.denominator_as_long())
    if z3.is_int_value(v):
        return Fraction(v.as_long())
    if z3.is_algebraic_value(v):
        a = v.approx(30)
        return Fraction(a.numerator_as_long(), a.denominator_as_long())
    raise Unsupported('model value %s' % v)


# ---- external portfolio ------------------------------------------------------------
def smt2_of(base, neg, logic=None):
    s = z3.Solver()
    for g in base:
        s.add(*g)
    s.add(neg)
    txt = s.to_smt2()
    return txt


def external_check(base, neg, timeout_s=60, solvers=('cvc5', 'z3')):
    """Give the SMT-LIB dump to the cvc5 / z3 4.8 binaries; first definitive answer wins."""
    txt = smt2_of(base, neg)
    fd, path = tempfile.mkstemp(suffix='.smt2', prefix='pverif_')
    os.write(fd, txt.encode())
    os.close(fd)
    answers = {}
    try:
        for name in solvers:
            if name == 'cvc5':
                cmd = ['cvc5', '--tlimit=%d' % (timeout_s * 1000), path]
            else:
                cmd = ['/usr/bin/z3', '-T:%d' % timeout_s, path]
            try:
                out = subprocess.run(cmd, capture_output=True, text=True, timeout=timeout_s + 10).stdout
            except (subprocess.TimeoutExpired, OSError):
                out = 'timeout'
            if '(error' in out:
                answers[name] = 'error'
                continue
            first = out.strip().split('\n')[0].strip() if out.strip() else ''
            answers[name] = first if first in ('sat', 'unsat', 'unknown') else 'unknown'
            if answers[name] in ('sat', 'unsat'):
                break
    finally:
        os.unlink(path)
    vals = set(answers.values())
    if 'sat' in vals and 'unsat' in vals:
        return 'unknown', answers
    for v in ('unsat', 'sat'):
        if v in vals:
            return v, answers
    return 'unknown', answers


# ---- the staged discharge -------------------------------------------------------
def discharge(path, claim, timeout_ms=20000, portfolio=False, range_assumptions=()):
    """Decide `assumptions & axioms & pc => claim` for one path.

    Stages for equality claims a == b:
      1. direct query;
      2. if sat at a point where a = kappa*b with |kappa-1| <= 1e-9: prove a == kappa*b
         (floating-point rounded constants differ between code and oracle by such a factor);
      3. on unknown: cross-multiplied, division-free polynomial identity.
    """
    from . import sym as _sym
    if getattr(claim, 'hyps', None) is not None:
        allc = [(c, _sym.term_vars(c)) for c in claim.hyps]
    else:
        allc = [(c, _sym.term_vars(c)) for g in (path.assumptions, path.axioms, path.pc, list(range_assumptions)) for c in g]
    goal = claim.t if claim.kind == 'bool' else (claim.a != claim.b)
    base = (_sym.cone(allc, goal),)     # cone of influence of the claim (the rest is satisfiable: vacuity check)
    t0 = time.time()
    queries = 0

    def done(status, how, model=None, kappa=None):
        return Verdict(status, how, model, time.time() - t0, kappa, queries)

    # stage 0: only the hypotheses that speak about the claim's own variables (dropping hypotheses is sound
    # for a validity proof; a `sat` answer here is ignored)
    gv = _sym.term_vars(goal)
    local = [c for c, cv in allc if cv and cv <= gv]
    if len(local) < len(base[0]):
        neg0 = z3.Not(claim.t) if claim.kind == 'bool' else (claim.a != claim.b)
        if not (claim.kind == 'bool' and z3.is_true(z3.simplify(claim.t))):
            queries += 1
            r0, m0, _, _ = _check((local,), neg0, min(timeout_ms, 3000))
            if r0 == 'unsat':
                return done('unsat', 'direct-local')
            if r0 == 'sat' and claim.kind == 'eq':
                # rounded constants: a == kappa*b with |kappa - 1| <= 1e-9 ?
                try:
                    va, vb = model_value(m0, claim.a), model_value(m0, claim.b)
                    if va != 0 and vb != 0 and abs(va / vb - 1) <= REL_TOL:
                        k0 = va / vb
                        queries += 1
                        r1, _m1, _, _ = _check((local,), claim.a != z3.RatVal(k0.numerator, k0.denominator) * claim.b, min(timeout_ms, 3000))
                        if r1 == 'unsat':
                            return done('unsat', 'proportional-local', kappa=float(k0))
                        absb0 = z3.If(claim.b >= 0, claim.b, -claim.b)
                        tol0 = z3.RatVal(1, 10**9) * absb0
                        queries += 1
                        r2, _m2, _, _ = _check((local,), z3.Or(claim.a - claim.b > tol0, claim.b - claim.a > tol0), min(timeout_ms, 3000))
                        if r2 == 'unsat':
                            return done('unsat', 'tolerance-local 1e-9')
                except Unsupported:
                    pass

    if claim.kind == 'bool':
        if z3.is_true(z3.simplify(claim.t)):
            return done('unsat', 'trivial')
        queries += 1
        r, m, _, _ = _check(base, z3.Not(claim.t), timeout_ms)
        if r == 'unknown' and portfolio:
            queries += 1
            r2, ans = external_check(base, z3.Not(claim.t), timeout_s=max(10, timeout_ms // 1000))
            if r2 == 'unsat':
                return done('unsat', 'portfolio %s' % ans)
        return done(r, 'direct', m)

    a, b = claim.a, claim.b
    if z3.simplify(a - b).eq(z3.RealVal(0)) or z3.simplify(a).eq(z3.simplify(b)):
        return done('unsat', 'syntactic')
    queries += 1
    r, m, _, _ = _check(base, a != b, min(timeout_ms, 4000))
    if r == 'unsat':
        return done('unsat', 'direct')
    if r == 'unknown':
        # cheap second stage before spending the full budget: division-free polynomial identity
        try:
            ff0 = cross_multiplied(a, b, None)
            if z3.is_true(z3.simplify(ff0)):
                return done('unsat', 'fraction-free (normal form identical)')
            queries += 1
            r0, m0, _, _ = _check(base, z3.Not(ff0), min(timeout_ms, 8000))
            if r0 == 'unsat':
                return done('unsat', 'fraction-free')
        except Unsupported:
            pass
        queries += 1
        r, m, _, _ = _check(base, a != b, timeout_ms)
        if r == 'unsat':
            return done('unsat', 'direct')
    kappa = None
    first_model = m
    if r == 'sat':
        try:
            va, vb = model_value(m, a), model_value(m, b)
        except Unsupported:
            return done('sat', 'direct', m)
        if vb != 0 and va != 0 and abs(va / vb - 1) <= REL_TOL:
            kappa = va / vb
        elif vb == 0 and va == 0:
            kappa = None
        else:
            return done('sat', 'direct', m)
        if kappa is not None:
            kz = z3.RatVal(kappa.numerator, kappa.denominator)
            queries += 1
            r2, m2, _, _ = _check(base, a != kz * b, timeout_ms)
            if r2 == 'unsat':
                return done('unsat', 'proportional', kappa=float(kappa))
            if r2 == 'sat':
                # material at the new point?
                try:
                    va2, vb2 = model_value(m2, a), model_value(m2, b)
                    scale = max(abs(va2), abs(vb2))
                    if scale > 0 and abs(va2 - vb2) > Fraction(1, 10**6) * scale:
                        return done('sat', 'proportional-refuted', m2, kappa=float(kappa))
                except Unsupported:
                    pass
            # fall through to tolerance query
            absb = z3.If(b >= 0, b, -b)
            tol = z3.RatVal(1, 10**9) * absb
            queries += 1
            r3, m3, _, _ = _check(base, z3.Or(a - b > tol, b - a > tol), timeout_ms)
            if r3 == 'unsat':
                return done('unsat', 'tolerance 1e-9')
            if r3 == 'sat':
                return done('sat', 'tolerance 1e-9', m3)
            r = 'unknown'
    # unknown: fraction-free
    try:
        ff = cross_multiplied(a, b, kappa)
    except Unsupported as e:
        return done('unknown', 'direct unknown; not normalisable (%s)' % e)
    if z3.is_true(z3.simplify(ff)):
        return done('unsat', 'fraction-free (normal form identical)', kappa=None if kappa is None else float(kappa))
    queries += 1
    r4, m4, _, _ = _check(base, z3.Not(ff), timeout_ms)
    if r4 == 'unsat':
        return done('unsat', 'fraction-free', kappa=None if kappa is None else float(kappa))
    if r4 == 'sat':
        return done('sat', 'fraction-free', m4)
    if portfolio:
        queries += 1
        r5, ans = external_check(base, z3.Not(ff), timeout_s=max(10, timeout_ms // 1000))
        if r5 == 'unsat':
            return done('unsat', 'fraction-free portfolio %s' % ans)
    return done('unknown', 'all stages unknown')


def smt2_for(path, claim, limit=2500):
    """SMT-LIB text of the (cone-of-influence sliced) query of a claim, for the evidence file"""
    from . import sym as _sym
    if getattr(claim, 'hyps', None) is not None:
        allc = [(c, _sym.term_vars(c)) for c in claim.hyps]
    else:
        allc = [(c, _sym.term_vars(c)) for g in (path.assumptions, path.axioms, path.pc) for c in g]
    neg = z3.Not(claim.t) if claim.kind == 'bool' else (claim.a != claim.b)
    s_ = z3.Solver()
    s_.add(*_sym.cone(allc, neg))
    s_.add(neg)
    txt = s_.to_smt2()
    return txt if len(txt) <= limit else txt[:limit] + '\n; ... truncated (%d characters)' % len(txt)
