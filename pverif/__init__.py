"""pverif -- solver-based checking of pkienzle/periodictable (see /verif/DESIGN.md)."""
